import CedarVerif.Lemmas.TCRemove
/-
Lemmas for C04, part 5: `upsert_entities` for a batch of one entity (overwriting an existing record, or
adding a new one — the latter coincides with `add_entities`). Batches of several entities are processed
sequentially by the code with non-closed intermediate stores; their invariant is not proved here
(statement kept in Thm/C04.lean, behaviour covered by the correspondence).
-/
namespace Cedar.TC
set_option linter.unusedSectionVars false

variable {α : Type} [DecidableEq α]

theorem get_map_node' (s : Store α) (g : α × Node α → α × Node α) (f : α → Node α → Node α)
    (hg : ∀ kn, g kn = (kn.1, f kn.1 kn.2)) (x : α) : get (s.map g) x = (get s x).map (f x) := by
  induction s with
  | nil => rfl
  | cons kv rest ih =>
    obtain ⟨k, v⟩ := kv
    by_cases hk : k = x
    · simp [get, hg, hk]
    · simp only [List.map_cons, hg, get, hk, if_false]
      rw [← ih]

/-- what `upsert_entities` does to the record `n` of `x` when `u` (old ancestors `oa`) is overwritten -/
def upsNode (u : α) (oa : List α) (x : α) (n : Node α) : Node α :=
  if x ≠ u ∧ u ∈ n.out then stripUpsert u oa n else n

theorem upsNode_parents (u : α) (oa : List α) (x : α) (n : Node α) : (upsNode u oa x n).parents = n.parents := by
  unfold upsNode; split <;> rfl

theorem mem_upsNode_indirect (u : α) (oa : List α) (x : α) (n : Node α) (hx : x ≠ u) (y : α) :
    y ∈ (upsNode u oa x n).indirect ↔ y ∈ n.indirect ∧ (u ∈ n.out → y ≠ u ∧ y ∉ oa) := by
  unfold upsNode
  by_cases hu : u ∈ n.out
  · simp [hx, hu, stripUpsert, List.mem_filter]
  · simp [hu]

theorem pg_set' (s : Store α) (x : α) (n : Node α) :
    parentGraph (set s x n) = PGraph.set (parentGraph s) x n.parents := by
  induction s with
  | nil => rfl
  | cons kv rest ih =>
    obtain ⟨k, v⟩ := kv
    by_cases hk : k = x
    · simp [set, parentGraph, PGraph.set, hk]
    · simp only [parentGraph] at ih
      simp [set, parentGraph, PGraph.set, hk, ih]

theorem pg_map_same (s : Store α) (g : α × Node α → α × Node α)
    (hg : ∀ kn, (g kn).1 = kn.1 ∧ (g kn).2.parents = kn.2.parents) : parentGraph (s.map g) = parentGraph s := by
  induction s with
  | nil => rfl
  | cons kv rest ih =>
    simp only [parentGraph, List.map_cons] at ih ⊢
    rw [ih, (hg kv).1, (hg kv).2]

theorem upsertOne_some {s : Store α} {t : List α} {e : α × Node α} {old : Node α} (h : get s e.1 = some old) :
    upsertOne (s, t) e =
      (set (s.map (fun kn => (kn.1, upsNode e.1 old.out kn.1 kn.2))) e.1 e.2,
       tinsert e.1 (s.foldl (fun t kn => if kn.1 ≠ e.1 ∧ e.1 ∈ kn.2.out then tinsert kn.1 t else t) t)) := by
  simp only [upsertOne, h]
  congr 2
  apply List.map_congr_left
  intro kn _
  unfold upsNode
  split <;> rfl

theorem ups_touch_untouched (u : α) (s1 : Store α) : ∀ (t : List α) x,
    x ∉ s1.foldl (fun t kn => if kn.1 ≠ u ∧ u ∈ kn.2.out then tinsert kn.1 t else t) t →
    x ∉ t ∧ ∀ n, (x, n) ∈ s1 → x ≠ u → u ∉ n.out := by
  induction s1 with
  | nil => intro t x h; exact ⟨h, fun n hn => (by cases hn)⟩
  | cons kn s ih =>
    intro t x h
    simp only [List.foldl_cons] at h
    obtain ⟨h1, h2⟩ := ih _ x h
    constructor
    · intro hx; apply h1; split
      · exact tinsert_sub _ _ _ hx
      · exact hx
    · intro n hn hxu hu
      simp only [List.mem_cons] at hn
      rcases hn with rfl | hn
      · apply h1
        rw [if_pos (show (x, n).1 ≠ u ∧ u ∈ (x, n).2.out from ⟨hxu, hu⟩)]
        exact tinsert_self _ _
      · exact h2 n hn hxu hu

/-- overwriting one existing record: the store handed to `repair_tc` -/
theorem upsert_single_pre (s : Store α) (e : α × Node α) (hinv : StoreInv s) (hpure : e.2.indirect = [])
    (old : Node α) (hold : get s e.1 = some old) :
    Sound (shape (upsertOne (s, []) e).1) (upsertOne (s, []) e).1 ∧
    (∀ k, k ∈ keys (upsertOne (s, []) e).1 → k ∉ (upsertOne (s, []) e).2 →
      Complete (shape (upsertOne (s, []) e).1) (upsertOne (s, []) e).1 k) ∧
    Disjoint (upsertOne (s, []) e).1 ∧
    parentGraph (upsertOne (s, []) e).1 = specUpsert (parentGraph s) [e] := by
  rw [upsertOne_some hold]
  simp only
  generalize hs1 : set (s.map (fun kn => (kn.1, upsNode e.1 old.out kn.1 kn.2))) e.1 e.2 = s1
  have hm : ∀ x, get (s.map (fun kn => (kn.1, upsNode e.1 old.out kn.1 kn.2))) x =
      (get s x).map (upsNode e.1 old.out x) := get_map_node' s _ _ (fun _ => rfl)
  have G1 : get s1 e.1 = some e.2 := by
    rw [← hs1]
    exact get_set_self _ _ _ (upsNode e.1 old.out e.1 old) (by rw [hm, hold]; rfl)
  have G2 : ∀ x, x ≠ e.1 → get s1 x = (get s x).map (upsNode e.1 old.out x) := by
    intro x hx; rw [← hs1, get_set_other _ _ _ _ hx, hm]
  have P1u : shape s1 e.1 = some e.2.parents := shape_some G1
  have P1x : ∀ x, x ≠ e.1 → shape s1 x = shape s x := by
    intro x hx
    unfold shape
    rw [G2 x hx]
    cases get s x with
    | none => rfl
    | some n => simp [upsNode_parents]
  have holdr : ∀ y, y ∈ old.out ↔ Reach (shape s) e.1 y := hinv.exact e.1 old hold
  -- a path of the old graph that does not pass through `u` is a path of the new graph
  have La1 : ∀ a y, Reach (shape s) a y → a ≠ e.1 → ¬ Reach (shape s) e.1 y → Reach (shape s1) a y := by
    intro a y hr
    induction hr with
    | edge hp hy => intro ha _; exact Reach.edge (by rw [P1x _ ha]; exact hp) hy
    | @step a' y' z ps hp hz hzy ih =>
      intro ha hn
      have hzu : z ≠ e.1 := fun e' => hn (e' ▸ hzy)
      exact Reach.step (by rw [P1x _ ha]; exact hp) hz (ih hzu hn)
  have La2 : ∀ a y, Reach (shape s) a y → a ≠ e.1 → ¬ Reach (shape s) a e.1 → Reach (shape s1) a y := by
    intro a y hr
    induction hr with
    | edge hp hy => intro ha _; exact Reach.edge (by rw [P1x _ ha]; exact hp) hy
    | @step a' y' z ps hp hz hzy ih =>
      intro ha hn
      have hzu : z ≠ e.1 := fun e' => hn (Reach.edge hp (e' ▸ hz))
      exact Reach.step (by rw [P1x _ ha]; exact hp) hz (ih hzu (fun h' => hn (Reach.step hp hz h')))
  have Lb : ∀ a y, Reach (shape s1) a y → a ≠ e.1 → ¬ Reach (shape s) a e.1 → Reach (shape s) a y := by
    intro a y hr
    induction hr with
    | edge hp hy => intro ha _; exact Reach.edge (by rw [← P1x _ ha]; exact hp) hy
    | @step a' y' z ps hp hz hzy ih =>
      intro ha hn
      have hp' : shape s a' = some ps := by rw [← P1x _ ha]; exact hp
      have hzu : z ≠ e.1 := fun e' => hn (Reach.edge hp' (e' ▸ hz))
      exact Reach.step hp' hz (ih hzu (fun h' => hn (Reach.step hp' hz h')))
  refine ⟨?_, ?_, ?_, ?_⟩
  · -- Sound
    intro x n1 hx y hy
    by_cases hxu : x = e.1
    · subst hxu
      rw [G1] at hx; cases hx
      have hy' : y ∈ e.2.parents := by
        unfold Node.out at hy; rw [hpure] at hy; simpa using hy
      exact Reach.edge P1u hy'
    · rw [G2 x hxu] at hx
      cases hg : get s x with
      | none => rw [hg] at hx; cases hx
      | some n =>
        rw [hg] at hx
        simp only [Option.map_some, Option.some.injEq] at hx
        subst hx
        rcases mem_out.mp hy with hyp | hyi
        · rw [upsNode_parents] at hyp
          exact Reach.edge (by rw [P1x x hxu]; exact shape_some hg) hyp
        · have hyi' := (mem_upsNode_indirect e.1 old.out x n hxu y).mp hyi
          have hxy : Reach (shape s) x y := (hinv.exact x n hg y).mp (mem_out.mpr (Or.inr hyi'.1))
          by_cases hun : e.1 ∈ n.out
          · exact La1 x y hxy hxu (fun h' => (hyi'.2 hun).2 ((holdr y).mpr h'))
          · exact La2 x y hxy hxu (fun h' => hun ((hinv.exact x n hg e.1).mpr h'))
  · -- untouched nodes are complete
    intro k _ hkt n1 hn1 y hr
    have hk1 : k ≠ e.1 := fun e' => hkt (e' ▸ tinsert_self _ _)
    have hk2 := ups_touch_untouched e.1 s [] k (fun h' => hkt (tinsert_sub _ _ _ h'))
    rw [G2 k hk1] at hn1
    cases hg : get s k with
    | none => rw [hg] at hn1; cases hn1
    | some n =>
      rw [hg] at hn1
      simp only [Option.map_some, Option.some.injEq] at hn1
      have hun : e.1 ∉ n.out := hk2.2 n (get_some_mem hg) hk1
      have hnn : upsNode e.1 old.out k n = n := by unfold upsNode; simp [hun]
      rw [hnn] at hn1
      subst hn1
      have hnr : ¬ Reach (shape s) k e.1 := fun h' => hun ((hinv.exact k n hg e.1).mpr h')
      exact (hinv.exact k n hg y).mpr (Lb k y hr hk1 hnr)
  · -- Disjoint
    intro x n1 hx y hyp hyi
    by_cases hxu : x = e.1
    · subst hxu
      rw [G1] at hx; cases hx
      rw [hpure] at hyi; cases hyi
    · rw [G2 x hxu] at hx
      cases hg : get s x with
      | none => rw [hg] at hx; cases hx
      | some n =>
        rw [hg] at hx
        simp only [Option.map_some, Option.some.injEq] at hx
        subst hx
        rw [upsNode_parents] at hyp
        exact hinv.disjoint x n hg y hyp ((mem_upsNode_indirect e.1 old.out x n hxu y).mp hyi).1
  · -- parent graph
    have hpg : PGraph.get (parentGraph s) e.1 = some old.parents := by rw [pg_get]; exact shape_some hold
    simp only [specUpsert, hpg]
    rw [← hs1, pg_set', pg_map_same]
    intro kn
    exact ⟨rfl, upsNode_parents _ _ _ _⟩

/-- `upsert_entities` (ComputeNow) with a batch of one entity overwriting an existing record, when the
    resulting parent graph is acyclic: accepted, invariant re-established, spec parent graph. -/
theorem upsert_single_ok (s : Store α) (e : α × Node α) (hinv : StoreInv s) (hpure : e.2.indirect = [])
    (old : Node α) (hold : get s e.1 = some old)
    (hacyc : ∀ x, ¬ Reach (shape (upsertOne (s, []) e).1) x x) :
    ∃ s', upsertApply .compute s [e] = .ok s' ∧ StoreInv s' ∧
      parentGraph s' = specUpsert (parentGraph s) [e] := by
  obtain ⟨p1, p2, p3, p4⟩ := upsert_single_pre s e hinv hpure old hold
  have hun : ∀ k, k ∈ keys (upsertOne (s, []) e).1 →
      k ∉ touchPass (upsertOne (s, []) e).1 (upsertOne (s, []) e).2 →
      Complete (shape (upsertOne (s, []) e).1) (upsertOne (s, []) e).1 k :=
    fun k hk hkt => p2 k hk (fun h' => hkt (touchPass_sub _ _ _ h'))
  obtain ⟨s', hok, hinv', hpg⟩ := repair_establishes _ _ p1 hacyc hun p3
  refine ⟨s', ?_, hinv', by rw [hpg, p4]⟩
  unfold upsertApply
  simp only [List.foldl_cons, List.foldl_nil, finish, if_true]
  exact hok

/-- … it fails only with `cycle`, and only if the resulting parent graph has a cycle -/
theorem upsert_single_err (s : Store α) (e : α × Node α) (hinv : StoreInv s) (hpure : e.2.indirect = [])
    (old : Node α) (hold : get s e.1 = some old) (err : Err)
    (h : upsertApply .compute s [e] = .error err) :
    err = .cycle ∧ ∃ x, Reach (shape (upsertOne (s, []) e).1) x x := by
  obtain ⟨p1, _, _, _⟩ := upsert_single_pre s e hinv hpure old hold
  unfold upsertApply at h
  simp only [List.foldl_cons, List.foldl_nil, finish, if_true] at h
  obtain ⟨r1, _, r3⟩ := repairTc_sound _ (touchPass (upsertOne (s, []) e).1 (upsertOne (s, []) e).2) _ p1
  have := r3 err h
  subst this
  exact ⟨rfl, r1 h⟩

/-- upserting one entity whose uid has no record is `add_entities` of that entity -/
theorem upsert_single_new (s : Store α) (e : α × Node α) (hnew : get s e.1 = none) :
    upsertApply .compute s [e] = addEntities .compute s [e] := by
  unfold upsertApply addEntities
  simp [upsertOne, addLoop, updateEntityMap, hnew]

end Cedar.TC
