import CedarVerif.Lemmas.PolicySetRefine
import CedarVerif.Lemmas.PolicySetProj
/-
C08 helper lemmas, part 9: the public API layer refines the abstract specification (no admissibility hypothesis:
the API's own guards are what the specification's guards say), and histories of API calls.
-/
namespace Cedar
open LHM

def ApiOp.toSpec : ApiOp → Spec.Op
  | .add b => .add b
  | .addTemplate t => .addTemplate t
  | .link tid newId vals => .link tid newId vals
  | .unlink id => .unlink id
  | .removeStatic id => .removeStatic id
  | .removeTemplate id => .removeTemplate id

/-- an API call that passes the API's guard behaves as the core call -/
theorem api_refines_of_core (s : ApiPolicySet) (st : Step ApiPolicySet) (cop : CoreOp) (sp : Spec)
    (wf : s.ast.WF) (adm : cop.admissible s.ast) (R : s.ast.AbsRel sp)
    (hA : st.ps.ast = (s.ast.applyOp cop).ps) (hB : st.err = none ↔ (s.ast.applyOp cop).err = none) :
    match sp.apply cop.toSpec with
    | none => st.err ≠ none ∧ st.ps.ast.AbsRel sp
    | some sp' => st.err = none ∧ st.ps.ast.AbsRel sp' := by
  have h := PolicySet.applyOp_refines s.ast cop sp wf adm R
  cases hs : sp.apply cop.toSpec with
  | none =>
    rw [hs] at h
    simp only
    rw [hA]
    exact ⟨fun e => h.1 (hB.mp e), h.2⟩
  | some sp' =>
    rw [hs] at h
    simp only
    rw [hA]
    exact ⟨hB.mpr h.1, h.2⟩

/-- Refinement, one API step: the call succeeds iff the abstract operation does; the core set stays related. -/
theorem ApiPolicySet.applyOp_refines (s : ApiPolicySet) (op : ApiOp) (sp : Spec) (wf : s.WF) (pr : s.Proj)
    (R : s.ast.AbsRel sp) :
    match sp.apply op.toSpec with
    | none => (s.applyOp op).err ≠ none ∧ (s.applyOp op).ps.ast.AbsRel sp
    | some sp' => (s.applyOp op).err = none ∧ (s.applyOp op).ps.ast.AbsRel sp' := by
  cases op with
  | add b =>
    refine api_refines_of_core s _ (.addStatic b) sp wf.ast trivial R ?_ ?_
    · show (s.add (linkStaticPolicy b).2).ps.ast = (s.ast.addStatic b).ps
      unfold ApiPolicySet.add
      have hst : (linkStaticPolicy b).2.isStatic = true := rfl
      simp only [hst, if_true]
      rw [PolicySet.add_static_eq_addStatic s.ast b wf.nb]
      split <;> rfl
    · show (s.add (linkStaticPolicy b).2).err = none ↔ (s.ast.addStatic b).err = none
      unfold ApiPolicySet.add
      have hst : (linkStaticPolicy b).2.isStatic = true := rfl
      simp only [hst, if_true]
      rw [PolicySet.add_static_eq_addStatic s.ast b wf.nb]
      split <;> simp [*]
  | addTemplate t =>
    refine api_refines_of_core s _ (.addTemplate t) sp wf.ast trivial R ?_ ?_
    · show (s.addTemplate t).ps.ast = (s.ast.addTemplate t).ps
      unfold ApiPolicySet.addTemplate
      dsimp only
      split <;> rfl
    · show (s.addTemplate t).err = none ↔ (s.ast.addTemplate t).err = none
      unfold ApiPolicySet.addTemplate
      dsimp only
      split <;> simp [*]
  | link tid newId vals =>
    cases hT : s.templates.get? tid with
    | none =>
      have hspec : sp.apply (ApiOp.link tid newId vals).toSpec = none := by
        show sp.apply (.link tid newId vals) = none
        simp only [Spec.apply]
        rw [R.getTemplate]
        by_cases hl : s.ast.links.get? tid = none
        · simp only [hl, if_true]
          cases ht : s.ast.templates.get? tid with
          | none => rfl
          | some t => rw [(pr.tmpl tid t).mpr ⟨ht, hl⟩] at hT; cases hT
        · simp [hl]
      rw [hspec]
      simp only
      show (s.link tid newId vals).err ≠ none ∧ (s.link tid newId vals).ps.ast.AbsRel sp
      unfold ApiPolicySet.link
      simp only [hT]
      split <;> exact ⟨by simp, R⟩
    | some t0 =>
      have hadm : s.ast.links.get? tid = none := ((pr.tmpl tid t0).mp hT).2
      refine api_refines_of_core s _ (.link tid newId vals) sp wf.ast ((contains_false _ _).mpr hadm) R ?_ ?_
      · show (s.link tid newId vals).ps.ast = (s.ast.link tid newId vals).ps
        unfold ApiPolicySet.link
        simp only [hT]
        split
        · rfl
        · split <;> rfl
      · show (s.link tid newId vals).err = none ↔ (s.ast.link tid newId vals).err = none
        unfold ApiPolicySet.link
        simp only [hT]
        split
        · simp [*]
        · rename_i herr
          obtain ⟨t, ht, hb, hl, hnt, heq⟩ := PolicySet.link_ok s.ast tid newId vals herr
          have hg : (s.ast.link tid newId vals).ps.links.get? newId =
              some { template := t, link := some newId, values := vals } := by
            rw [heq]; simp [get?_snoc_absent _ _ _ hl]
          simp [hg, herr]
  | unlink id =>
    cases hP : s.policies.get? id with
    | none =>
      have hL : s.ast.links.get? id = none := by rw [← pr.pol]; exact hP
      have hspec : sp.apply (ApiOp.unlink id).toSpec = none := by
        show sp.apply (.unlink id) = none
        simp only [Spec.apply]
        have : ¬ sp.links.any (fun e => e.1 == id) = true := by
          rw [R.link_iff]; rintro ⟨p, hp, _⟩; rw [hL] at hp; cases hp
        simp [this]
      rw [hspec]
      simp only
      show (s.unlink id).err ≠ none ∧ (s.unlink id).ps.ast.AbsRel sp
      unfold ApiPolicySet.unlink
      simp only [hP]
      exact ⟨by simp, R⟩
    | some p =>
      refine api_refines_of_core s _ (.unlink id) sp wf.ast trivial R ?_ ?_
      · show (s.unlink id).ps.ast = (s.ast.unlink id).ps
        unfold ApiPolicySet.unlink
        simp only [hP]
        split <;> rfl
      · show (s.unlink id).err = none ↔ (s.ast.unlink id).err = none
        unfold ApiPolicySet.unlink
        simp only [hP]
        split <;> simp [*]
  | removeStatic id =>
    cases hP : s.policies.get? id with
    | none =>
      have hL : s.ast.links.get? id = none := by rw [← pr.pol]; exact hP
      have hspec : sp.apply (ApiOp.removeStatic id).toSpec = none := by
        show sp.apply (.removeStatic id) = none
        simp only [Spec.apply]
        have : ¬ sp.statics.any (fun e => e.1 == id) = true := by
          rw [R.static_iff]; rintro ⟨p, hp, _⟩; rw [hL] at hp; cases hp
        simp [this]
      rw [hspec]
      simp only
      show (s.removeStatic id).err ≠ none ∧ (s.removeStatic id).ps.ast.AbsRel sp
      unfold ApiPolicySet.removeStatic
      simp only [hP]
      exact ⟨by simp, R⟩
    | some p =>
      refine api_refines_of_core s _ (.removeStatic id) sp wf.ast trivial R ?_ ?_
      · show (s.removeStatic id).ps.ast = (s.ast.removeStatic id).ps
        unfold ApiPolicySet.removeStatic
        simp only [hP]
        split <;> rfl
      · show (s.removeStatic id).err = none ↔ (s.ast.removeStatic id).err = none
        unfold ApiPolicySet.removeStatic
        simp only [hP]
        split <;> simp [*]
  | removeTemplate id =>
    cases hT : s.templates.get? id with
    | none =>
      have hspec : sp.apply (ApiOp.removeTemplate id).toSpec = none := by
        show sp.apply (.removeTemplate id) = none
        simp only [Spec.apply]
        have : ¬ sp.templates.any (fun e => e.1 == id) = true := by
          rw [R.template_iff]
          rintro ⟨h1, h2⟩
          cases ht : s.ast.templates.get? id with
          | none => rw [ht] at h1; cases h1
          | some t => rw [(pr.tmpl id t).mpr ⟨ht, h2⟩] at hT; cases hT
        simp [this]
      rw [hspec]
      simp only
      show (s.removeTemplate id).err ≠ none ∧ (s.removeTemplate id).ps.ast.AbsRel sp
      unfold ApiPolicySet.removeTemplate
      simp only [hT]
      exact ⟨by simp, R⟩
    | some t0 =>
      refine api_refines_of_core s _ (.removeTemplate id) sp wf.ast trivial R ?_ ?_
      · show (s.removeTemplate id).ps.ast = (s.ast.removeTemplate id).ps
        unfold ApiPolicySet.removeTemplate
        simp only [hT]
        split <;> rfl
      · show (s.removeTemplate id).err = none ↔ (s.ast.removeTemplate id).err = none
        unfold ApiPolicySet.removeTemplate
        simp only [hT]
        split <;> simp [*]

theorem ApiPolicySet.applyOp_refines_step (s : ApiPolicySet) (op : ApiOp) (sp : Spec) (wf : s.WF) (pr : s.Proj)
    (R : s.ast.AbsRel sp) : (s.applyOp op).ps.ast.AbsRel (sp.step op.toSpec) := by
  have h := ApiPolicySet.applyOp_refines s op sp wf pr R
  unfold Spec.step
  cases hs : sp.apply op.toSpec with
  | some sp' => rw [hs] at h; exact h.2
  | none => rw [hs] at h; exact h.2

/-- Refinement, histories of API calls -/
theorem ApiPolicySet.run_refines (ops : List ApiOp) : ∀ (s : ApiPolicySet) (sp : Spec), s.WF → s.Proj →
    (∀ op, op ∈ ops → op.wellTyped) → s.ast.AbsRel sp →
    (s.run ops).ast.AbsRel (sp.run (ops.map ApiOp.toSpec)) := by
  induction ops with
  | nil => intro s sp _ _ _ R; exact R
  | cons op ops ih =>
    intro s sp wf pr wt R
    exact ih _ _ (ApiPolicySet.applyOp_wf s op wf (wt op (by simp))) (ApiPolicySet.applyOp_proj s op wf pr)
      (fun o ho => wt o (by simp [ho])) (ApiPolicySet.applyOp_refines_step s op sp wf pr R)

end Cedar
