import CedarVerif.Lemmas.TpeBridge
/- C14 / C15 helpers: **missing ≡ empty**.  Padding a store with EMPTY entities (no attributes, no parents, no tags)
   for ids it does not hold changes no evaluation result up to the error class: `has` / `hasTag` are `false` in both
   stores, `.attr` / `getTag` error in both (`entity` error vs `attr` error), `in` is decided by `==` in both.
   Type safety (`TypeSafe`) transfers along such paddings. -/
namespace Cedar.Tpe
open Cedar

/-- the entity `Entity::with_uid` builds for an id the loader does not know -/
def emptyData : EntityData := ⟨[], [], []⟩

/-- `es'` is `es` padded with empty entities for some ids absent from `es` -/
def PadsEmpty (es es' : Entities) : Prop :=
  ∀ u, es'.find? u = es.find? u ∨ (es.find? u = none ∧ es'.find? u = some emptyData)

theorem PadsEmpty.refl (es : Entities) : PadsEmpty es es := fun _ => Or.inl rfl

variable {req : Request} {es es' : Entities}

theorem agree_trans {x y z : Result Value} (h1 : Agree x y) (h2 : Agree y z) : Agree x z := by
  cases x <;> cases y <;> cases z <;> simp_all [Agree]

theorem agree_symm {x y : Result Value} (h : Agree x y) : Agree y x := by
  cases x <;> cases y <;> simp_all [Agree]

theorem inE_pad (h : PadsEmpty es es') (u1 u2 : EntityUID) : inE es' u1 u2 = inE es u1 u2 := by
  unfold inE
  rcases h u1 with h1 | ⟨h1, h2⟩
  · rw [h1]
  · rw [h1, h2]; simp [emptyData]

theorem applyBinary_pad (h : PadsEmpty es es') (op : BinaryOp) (v1 v2 : Value) :
    Agree (applyBinary es' op v1 v2) (applyBinary es op v1 v2) := by
  by_cases hop : storeFreeOp op = true
  · have : applyBinary es' op v1 v2 = applyBinary es op v1 v2 := by
      cases op <;> first | (simp [storeFreeOp] at hop; done) | rfl
    rw [this]; exact Agree.rfl' _
  · cases op <;> simp [storeFreeOp] at hop
    · -- `in`
      have : applyBinary es' .mem v1 v2 = applyBinary es .mem v1 v2 := by
        simp only [applyBinary, inE_pad h]
      rw [this]; exact Agree.rfl' _
    · -- `getTag`
      simp only [applyBinary, bind, Except.bind]
      cases v1.asEntity with
      | error e => simp [Agree]
      | ok u =>
        simp only
        cases v2.asString with
        | error e => simp [Agree]
        | ok t =>
          simp only
          rcases h u with h1 | ⟨h1, h2⟩
          · rw [h1]; exact Agree.rfl' _
          · rw [h1, h2]; simp [emptyData, lookupKV, Agree]
    · -- `hasTag`
      simp only [applyBinary, bind, Except.bind]
      cases v1.asEntity with
      | error e => simp [Agree]
      | ok u =>
        simp only
        cases v2.asString with
        | error e => simp [Agree]
        | ok t =>
          simp only
          rcases h u with h1 | ⟨h1, h2⟩
          · rw [h1]; exact Agree.rfl' _
          · rw [h1, h2]; simp [emptyData, lookupKV, Agree]

theorem getAttrV_pad (h : PadsEmpty es es') (a : String) (v : Value) : Agree (getAttrV es' a v) (getAttrV es a v) := by
  cases v with
  | prim p =>
    cases p with
    | entityUID u =>
      simp only [getAttrV]
      rcases h u with h1 | ⟨h1, h2⟩
      · rw [h1]; exact Agree.rfl' _
      · rw [h1, h2]; simp [emptyData, lookupKV, Agree]
    | _ => exact Agree.rfl' _
  | _ => exact Agree.rfl' _

theorem hasAttrV_pad (h : PadsEmpty es es') (a : String) (v : Value) : Agree (hasAttrV es' a v) (hasAttrV es a v) := by
  cases v with
  | prim p =>
    cases p with
    | entityUID u =>
      simp only [hasAttrV]
      rcases h u with h1 | ⟨h1, h2⟩
      · rw [h1]; exact Agree.rfl' _
      · rw [h1, h2]; simp [emptyData, lookupKV, Agree]
    | _ => exact Agree.rfl' _
  | _ => exact Agree.rfl' _

theorem bindR_congr' {x x' : Result Value} (f g : Value → Result Value) (hfg : ∀ a, Agree (f a) (g a)) (hx : Agree x x') :
    Agree (bindR x f) (bindR x' g) := by
  rcases agree_cases hx with ⟨v, rfl, rfl⟩ | ⟨_, _, rfl, rfl⟩
  · exact hfg v
  · simp [bindR, Agree]

theorem bindR_congr2' {x x' y y' : Result Value} (f g : Value → Value → Result Value) (hfg : ∀ a b, Agree (f a b) (g a b))
    (hx : Agree x x') (hy : Agree y y') :
    Agree (bindR x (fun a => bindR y (f a))) (bindR x' (fun a => bindR y' (g a))) := by
  rcases agree_cases hx with ⟨v, rfl, rfl⟩ | ⟨_, _, rfl, rfl⟩
  · simp only [bindR]; exact bindR_congr' (f v) (g v) (hfg v) hy
  · simp [bindR, Agree]

theorem liftL_congr {α} {X Y : Result (List α)} (f : List α → Result Value) (h : AgreeL X Y) : Agree (liftL X f) (liftL Y f) := by
  rcases agreeL_cases h with ⟨v, rfl, rfl⟩ | ⟨_, _, rfl, rfl⟩
  · exact Agree.rfl' _
  · simp [liftL, Agree]

theorem evalList_pad (xs : List Residual) (h : ∀ r, r ∈ xs → Agree (r.eval req es') (r.eval req es)) :
    AgreeL (Residual.evalList req es' xs) (Residual.evalList req es xs) := by
  induction xs with
  | nil => simp [Residual.evalList, AgreeL]
  | cons a l ih =>
    simp only [Residual.evalList]
    rcases agree_cases (h a (by simp)) with ⟨v, h1, h2⟩ | ⟨e, e', h1, h2⟩
    · rw [h1, h2]
      rcases agreeL_cases (ih (fun r hr => h r (by simp [hr]))) with ⟨vs, g1, g2⟩ | ⟨e, e', g1, g2⟩ <;> simp [g1, g2, AgreeL]
    · simp [h1, h2, AgreeL]

theorem evalKVs_pad (xs : List (String × Residual)) (h : ∀ kv, kv ∈ xs → Agree (kv.2.eval req es') (kv.2.eval req es)) :
    AgreeL (Residual.evalKVs req es' xs) (Residual.evalKVs req es xs) := by
  induction xs with
  | nil => simp [Residual.evalKVs, AgreeL]
  | cons a l ih =>
    obtain ⟨k, r⟩ := a
    simp only [Residual.evalKVs]
    rcases agree_cases (h (k, r) (by simp)) with ⟨v, h1, h2⟩ | ⟨e, e', h1, h2⟩
    · simp only at h1 h2
      rw [h1, h2]
      rcases agreeL_cases (ih (fun kv hkv => h kv (by simp [hkv]))) with ⟨vs, g1, g2⟩ | ⟨e, e', g1, g2⟩ <;> simp [g1, g2, AgreeL]
    · simp only at h1 h2
      simp [h1, h2, AgreeL]

/-- **missing ≡ empty**: every residual (every expression) evaluates alike — equal values, or both errors — on a store
    and on the store padded with empty entities for ids it lacks -/
theorem eval_pad (h : PadsEmpty es es') (r : Residual) : Agree (r.eval req es') (r.eval req es) := by
  induction Residual.all r with
  | concrete v ty => exact Agree.rfl' _
  | error ty => exact Agree.rfl' _
  | var x ty => cases x <;> exact Agree.rfl' _
  | and _ _ ihl ihr => simp only [Residual.eval, RKind.eval]; exact andR_congr ihl ihr
  | or _ _ ihl ihr => simp only [Residual.eval, RKind.eval]; exact orR_congr ihl ihr
  | ite _ _ _ ihc iht ihe => simp only [Residual.eval, RKind.eval]; exact iteR_congr ihc iht ihe
  | unary _ ih => simp only [Residual.eval, RKind.eval]; exact bindR_congr _ ih
  | @binary op _ _ _ _ _ iha ihb =>
    simp only [Residual.eval, RKind.eval]
    exact bindR_congr2' _ _ (fun a b => applyBinary_pad h op a b) iha ihb
  | @getAttr _ a _ _ ih => simp only [Residual.eval, RKind.eval]; exact bindR_congr' _ _ (getAttrV_pad h a) ih
  | @hasAttr _ a _ _ ih => simp only [Residual.eval, RKind.eval]; exact bindR_congr' _ _ (hasAttrV_pad h a) ih
  | like _ ih => simp only [Residual.eval, RKind.eval]; exact bindR_congr _ ih
  | is _ ih => simp only [Residual.eval, RKind.eval]; exact bindR_congr _ ih
  | @call fn args ty _ ih => simp only [Residual.eval, eval_call]; exact liftL_congr _ (evalList_pad args ih)
  | @set xs ty _ ih => simp only [Residual.eval, eval_set]; exact liftL_congr _ (evalList_pad xs ih)
  | @record kvs ty _ ih => simp only [Residual.eval, eval_record]; exact liftL_congr _ (evalKVs_pad kvs ih)

theorem ok_pad (h : PadsEmpty es es') {r : Residual} {v : Value} (hv : r.eval req es' = .ok v) : r.eval req es = .ok v := by
  have := eval_pad (req := req) h r
  rw [hv] at this; exact agree_ok_left this

theorem ok_pad' (h : PadsEmpty es es') {r : Residual} {v : Value} (hv : r.eval req es = .ok v) : r.eval req es' = .ok v := by
  have := agree_symm (eval_pad (req := req) h r)
  rw [hv] at this; exact agree_ok_left this

/-- type safety is insensitive to padding with empty entities (in both directions) -/
theorem typeSafe_pad (h : PadsEmpty es es') {r : Residual} (ts : TypeSafe req es r) : TypeSafe req es' r := by
  induction ts with
  | concrete v ty => exact .concrete _ _
  | error ty => exact .error _
  | var x ty => exact .var _ _
  | and _ hbl _ hbr ihl ihr =>
    exact .and ihl (fun v hv => hbl v (ok_pad h hv)) (fun ht => ihr (ok_pad h ht)) (fun ht v hv => hbr (ok_pad h ht) v (ok_pad h hv))
  | or _ hbl _ hbr ihl ihr =>
    exact .or ihl (fun v hv => hbl v (ok_pad h hv)) (fun ht => ihr (ok_pad h ht)) (fun ht v hv => hbr (ok_pad h ht) v (ok_pad h hv))
  | ite _ hbc _ _ ihc iht ihe =>
    exact .ite ihc (fun v hv => hbc v (ok_pad h hv)) (fun ht => iht (ok_pad h ht)) (fun ht => ihe (ok_pad h ht))
  | unary _ hsh ih => exact .unary ih (fun v hv => hsh v (ok_pad h hv))
  | binary _ _ hsh iha ihb => exact .binary iha ihb (fun v1 v2 h1 h2 => hsh v1 v2 (ok_pad h h1) (ok_pad h h2))
  | getAttr _ ih => exact .getAttr ih
  | hasAttr _ hsh ih => exact .hasAttr ih (fun v hv => hsh v (ok_pad h hv))
  | like _ hsh ih => exact .like ih (fun v hv => hsh v (ok_pad h hv))
  | is _ hsh ih => exact .is ih (fun v hv => hsh v (ok_pad h hv))
  | call _ ih => exact .call ih
  | set _ ih => exact .set ih
  | record _ ih => exact .record ih

end Cedar.Tpe
