import CedarVerif.Lemmas.PolicySetApi
/-
C08 helper lemmas, part 6: refinement of the abstract specification `Spec` by the core policy set.
`PolicySet.AbsRel ps sp` = "`sp` has exactly the statics / templates / links that `ps` stores" (membership, stated
through `get?`); `ps.abs` is such an `sp` on a well-formed set, and every non-merge operation maps related states to
related states with the same verdict (`PolicySet.applyOp_refines`).
-/
namespace Cedar
open LHM

namespace LHM

theorem mem_of_get? {α} (m : LHM α) (k : String) (v : α) (h : LHM.get? m k = some v) : (k, v) ∈ m := by
  induction m with
  | nil => simp at h
  | cons e m ih =>
    obtain ⟨k0, v0⟩ := e
    rw [get?_cons] at h
    by_cases hk : k0 = k
    · simp only [hk, if_true, Option.some.injEq] at h; subst h; subst hk; simp
    · simp only [hk, if_false] at h; exact List.mem_cons_of_mem _ (ih h)

theorem get?_of_mem {α} (m : LHM α) (k : String) (v : α) (nd : m.keys.Nodup) (h : (k, v) ∈ m) :
    LHM.get? m k = some v := by
  induction m with
  | nil => simp at h
  | cons e m ih =>
    obtain ⟨k0, v0⟩ := e
    rw [get?_cons]
    have nd' : (k0 :: LHM.keys m).Nodup := nd
    rw [List.nodup_cons] at nd'
    rcases List.mem_cons.mp h with h | h
    · cases h; simp
    · have hk : k0 ≠ k := by
        intro e; subst e
        exact nd'.1 (List.mem_map_of_mem (f := fun (x : String × α) => x.1) h)
      simp only [hk, if_false]
      exact ih nd'.2 h

theorem mem_iff_get? {α} (m : LHM α) (nd : m.keys.Nodup) (k : String) (v : α) :
    (k, v) ∈ m ↔ LHM.get? m k = some v :=
  ⟨get?_of_mem m k v nd, mem_of_get? m k v⟩

theorem get?_isSome_of_mem {α} (m : LHM α) (k : String) (v : α) (h : (k, v) ∈ m) : (LHM.get? m k).isSome = true :=
  (mem_keys_iff m k).mp (List.mem_map_of_mem (f := fun (x : String × α) => x.1) h)

/-- lookup in a list whose membership is functional -/
theorem get?_eq_some_iff_mem {α} (m : LHM α) (fn : ∀ k v v', (k, v) ∈ m → (k, v') ∈ m → v = v') (k : String) (v : α) :
    LHM.get? m k = some v ↔ (k, v) ∈ m := by
  constructor
  · exact mem_of_get? m k v
  · intro h
    have := get?_isSome_of_mem m k v h
    cases hg : LHM.get? m k with
    | none => rw [hg] at this; cases this
    | some v' => rw [fn k v v' h (mem_of_get? m k v' hg)]

theorem get?_eq_none_iff {α} (m : LHM α) (k : String) : LHM.get? m k = none ↔ ∀ v, (k, v) ∉ m := by
  constructor
  · intro h v hv
    have := get?_isSome_of_mem m k v hv
    rw [h] at this; cases this
  · intro h
    cases hg : LHM.get? m k with
    | none => rfl
    | some v => exact absurd (mem_of_get? m k v hg) (h v)

end LHM

/-! ### the abstraction relation -/

/-- `sp` lists exactly what `ps` stores: static policies = links without link id (with their body), templates =
entries of `templates` that are not policy ids, links = links with a link id (with template id and slot values) -/
structure PolicySet.AbsRel (ps : PolicySet) (sp : Spec) : Prop where
  statics : ∀ k b, (k, b) ∈ sp.statics ↔ ∃ p, ps.links.get? k = some p ∧ p.link = none ∧ p.template.body = b
  templates : ∀ k t, (k, t) ∈ sp.templates ↔ ps.templates.get? k = some t ∧ ps.links.get? k = none
  links : ∀ k tid vals, (k, (tid, vals)) ∈ sp.links ↔
    ∃ p, ps.links.get? k = some p ∧ p.link ≠ none ∧ p.template.id = tid ∧ p.values = vals

theorem TPolicy.isStatic_iff (p : TPolicy) : p.isStatic = true ↔ p.link = none := by
  unfold TPolicy.isStatic; cases p.link <;> simp

/-- on a set whose maps have unique keys, `ps.abs` is related to `ps` -/
theorem PolicySet.absRel_abs (ps : PolicySet) (tnd : ps.templates.keys.Nodup) (lnd : ps.links.keys.Nodup) :
    ps.AbsRel ps.abs := by
  constructor
  · intro k b
    unfold PolicySet.abs
    simp only [List.mem_filterMap]
    constructor
    · rintro ⟨⟨k', p⟩, hm, he⟩
      by_cases hs : p.isStatic = true
      · simp only [hs, if_true, Option.some.injEq, Prod.mk.injEq] at he
        obtain ⟨rfl, rfl⟩ := he
        exact ⟨p, get?_of_mem _ _ _ lnd hm, (TPolicy.isStatic_iff p).mp hs, rfl⟩
      · simp [hs] at he
    · rintro ⟨p, hp, hl, hb⟩
      refine ⟨(k, p), mem_of_get? _ _ _ hp, ?_⟩
      simp [(TPolicy.isStatic_iff p).mpr hl, hb]
  · intro k t
    unfold PolicySet.abs
    simp only [List.mem_filter, Bool.not_eq_true', contains_false]
    rw [mem_iff_get? _ tnd]
  · intro k tid vals
    unfold PolicySet.abs
    simp only [List.mem_filterMap]
    constructor
    · rintro ⟨⟨k', p⟩, hm, he⟩
      by_cases hs : p.isStatic = true
      · simp [hs] at he
      · simp only [hs, Bool.false_eq_true, if_false, Option.some.injEq, Prod.mk.injEq] at he
        obtain ⟨rfl, rfl, rfl⟩ := he
        exact ⟨p, get?_of_mem _ _ _ lnd hm, fun h => hs ((TPolicy.isStatic_iff p).mpr h), rfl, rfl⟩
    · rintro ⟨p, hp, hl, ht, hv⟩
      refine ⟨(k, p), mem_of_get? _ _ _ hp, ?_⟩
      have : ¬ p.isStatic = true := fun h => hl ((TPolicy.isStatic_iff p).mp h)
      simp [this, ht, hv]

/-- two abstract states related to the same set have the same members -/
theorem PolicySet.AbsRel.same {ps : PolicySet} {sp sp' : Spec} (h : ps.AbsRel sp) (h' : ps.AbsRel sp') :
    (∀ x, x ∈ sp.statics ↔ x ∈ sp'.statics) ∧ (∀ x, x ∈ sp.templates ↔ x ∈ sp'.templates) ∧
    (∀ x, x ∈ sp.links ↔ x ∈ sp'.links) := by
  refine ⟨?_, ?_, ?_⟩
  · rintro ⟨k, b⟩; rw [h.statics, h'.statics]
  · rintro ⟨k, t⟩; rw [h.templates, h'.templates]
  · rintro ⟨k, tid, vals⟩; rw [h.links, h'.links]

/-- the relation only looks at the maps `templates` and `links` -/
theorem PolicySet.AbsRel.of_maps {a b : PolicySet} {sp : Spec} (h : b.AbsRel sp)
    (ht : ∀ k, a.templates.get? k = b.templates.get? k) (hl : ∀ k, a.links.get? k = b.links.get? k) : a.AbsRel sp := by
  constructor
  · intro k x; rw [h.statics, hl]
  · intro k x; rw [h.templates, hl, ht]
  · intro k x y; rw [h.links, hl]

theorem PolicySet.AbsRel.of_sameMaps {a b : PolicySet} {sp : Spec} (h : b.AbsRel sp) (hs : a.sameMaps b) : a.AbsRel sp :=
  h.of_maps (fun k => by rw [hs.1]) hs.2.2.1

/-! ### reading the abstract state -/

theorem any_fst_eq {β} (l : List (String × β)) (id : String) :
    l.any (fun e => e.1 == id) = true ↔ ∃ v, (id, v) ∈ l := by
  simp only [List.any_eq_true, beq_iff_eq]
  constructor
  · rintro ⟨⟨k, v⟩, hm, rfl⟩; exact ⟨v, hm⟩
  · rintro ⟨v, hm⟩; exact ⟨(id, v), hm, rfl⟩

theorem PolicySet.AbsRel.static_iff {ps : PolicySet} {sp : Spec} (R : ps.AbsRel sp) (id : String) :
    sp.statics.any (fun e => e.1 == id) = true ↔ ∃ p, ps.links.get? id = some p ∧ p.link = none := by
  rw [any_fst_eq]
  constructor
  · rintro ⟨b, hb⟩
    obtain ⟨p, hp, hl, _⟩ := (R.statics id b).mp hb
    exact ⟨p, hp, hl⟩
  · rintro ⟨p, hp, hl⟩
    exact ⟨p.template.body, (R.statics id _).mpr ⟨p, hp, hl, rfl⟩⟩

theorem PolicySet.AbsRel.link_iff {ps : PolicySet} {sp : Spec} (R : ps.AbsRel sp) (id : String) :
    sp.links.any (fun e => e.1 == id) = true ↔ ∃ p, ps.links.get? id = some p ∧ p.link ≠ none := by
  rw [any_fst_eq]
  constructor
  · rintro ⟨⟨tid, vals⟩, hb⟩
    obtain ⟨p, hp, hl, _⟩ := (R.links id tid vals).mp hb
    exact ⟨p, hp, hl⟩
  · rintro ⟨p, hp, hl⟩
    exact ⟨(p.template.id, p.values), (R.links id _ _).mpr ⟨p, hp, hl, rfl, rfl⟩⟩

theorem PolicySet.AbsRel.template_iff {ps : PolicySet} {sp : Spec} (R : ps.AbsRel sp) (id : String) :
    sp.templates.any (fun e => e.1 == id) = true ↔ (ps.templates.get? id).isSome = true ∧ ps.links.get? id = none := by
  rw [any_fst_eq]
  constructor
  · rintro ⟨t, ht⟩
    obtain ⟨h1, h2⟩ := (R.templates id t).mp ht
    exact ⟨by simp [h1], h2⟩
  · rintro ⟨h1, h2⟩
    cases ht : ps.templates.get? id with
    | none => rw [ht] at h1; cases h1
    | some t => exact ⟨t, (R.templates id t).mpr ⟨ht, h2⟩⟩

/-- an id is used in the abstract state iff it is a key of `links` or of `templates` -/
theorem PolicySet.AbsRel.hasId_iff {ps : PolicySet} {sp : Spec} (R : ps.AbsRel sp) (id : String) :
    sp.hasId id = true ↔ (ps.links.get? id).isSome = true ∨ (ps.templates.get? id).isSome = true := by
  unfold Spec.hasId
  simp only [Bool.or_eq_true]
  rw [R.static_iff, R.link_iff, R.template_iff]
  constructor
  · rintro ((⟨p, hp, _⟩ | ⟨h, _⟩) | ⟨p, hp, _⟩)
    · exact Or.inl (by simp [hp])
    · exact Or.inr h
    · exact Or.inl (by simp [hp])
  · rintro (h | h)
    · cases hp : ps.links.get? id with
      | none => rw [hp] at h; cases h
      | some p =>
        by_cases hl : p.link = none
        · exact Or.inl (Or.inl ⟨p, rfl, hl⟩)
        · exact Or.inr ⟨p, rfl, hl⟩
    · cases hp : ps.links.get? id with
      | none => exact Or.inl (Or.inr ⟨h, rfl⟩)
      | some p =>
        by_cases hl : p.link = none
        · exact Or.inl (Or.inl ⟨p, rfl, hl⟩)
        · exact Or.inr ⟨p, rfl, hl⟩

theorem PolicySet.AbsRel.hasId_false {ps : PolicySet} {sp : Spec} (R : ps.AbsRel sp) (id : String) :
    sp.hasId id = false ↔ ps.links.get? id = none ∧ ps.templates.get? id = none := by
  rw [← Bool.not_eq_true, R.hasId_iff]
  cases ps.links.get? id <;> cases ps.templates.get? id <;> simp

/-- the abstract template lookup: the stored template, unless the id is a policy id -/
theorem PolicySet.AbsRel.getTemplate {ps : PolicySet} {sp : Spec} (R : ps.AbsRel sp) (id : String) :
    sp.getTemplate id = if ps.links.get? id = none then ps.templates.get? id else none := by
  unfold Spec.getTemplate
  have fn : ∀ k v v', (k, v) ∈ sp.templates → (k, v') ∈ sp.templates → v = v' := by
    intro k v v' h h'
    have h1 := ((R.templates k v).mp h).1
    have h2 := ((R.templates k v').mp h').1
    rw [h1] at h2; cases h2; rfl
  cases hg : LHM.get? sp.templates id with
  | some t =>
    obtain ⟨h1, h2⟩ := (R.templates id t).mp (mem_of_get? _ _ _ hg)
    simp [h1, h2]
  | none =>
    have hn := (get?_eq_none_iff _ _).mp hg
    by_cases hl : ps.links.get? id = none
    · simp only [hl, if_true]
      cases ht : ps.templates.get? id with
      | none => rfl
      | some t => exact absurd ((R.templates id t).mpr ⟨ht, hl⟩) (hn t)
    · simp [hl]

end Cedar
