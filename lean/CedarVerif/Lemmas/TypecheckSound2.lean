import CedarVerif.Lemmas.TypecheckOps
import CedarVerif.Lemmas.TypecheckTags
import CedarVerif.Lemmas.TypecheckIn
import CedarVerif.Lemmas.TypecheckExt
import CedarVerif.Lemmas.TypecheckDefs2
/-
C03: soundness of the typechecker model in strict mode on the second fragment (`InFragment2`): the induction.
Each case proves, for `typeOf .strict s env e caps = ok (τ, c')`, that `τ` is `mono` and — under the semantic premises —
the soundness invariant `Good`.
-/
namespace Cedar.C03

open Cedar

theorem mono_ne_never {τ : CedarType} (h : τ.mono = true) : τ ≠ .never := by
  intro h'; rw [h'] at h; simp [CedarType.mono] at h

theorem shape_entityOrRecord {τe : CedarType} (hme : τe.mono = true)
    (hsub : [CedarType.anyEntity, anyRecord].any (fun t => isSubtype .permissive τe t) = true) :
    τe = .never ∨ (∃ l, τe = .entity l) ∨ ∃ attrs o, τe = .record attrs o := by
  rcases subtype_entityOrRecord hsub with h1 | h1 | h1 | h1
  · exact Or.inl h1
  · rw [h1] at hme; simp [CedarType.mono] at hme
  · exact Or.inr (Or.inl h1)
  · exact Or.inr (Or.inr h1)

theorem shape_set {τ : CedarType} (hsub : [CedarType.set none].any (fun t => isSubtype .permissive τ t) = true) :
    τ = .never ∨ ∃ el, τ = .set el := subtype_anySet hsub

theorem typeOfList_flat' {m : ValidationMode} {s : Schema} {env : RequestEnv} {caps : Capabilities} :
    ∀ {es : List Expr} {τs : List CedarType}, es.all FlatExpr = true → typeOfList m s env es caps = .ok τs →
      ∀ t, t ∈ τs → t.flat = true
  | [], τs, _, h, t, ht => by simp only [typeOfList, Except.ok.injEq] at h; subst h; cases ht
  | e :: es, τs, hf, h, t, ht => by
    simp only [List.all_cons, Bool.and_eq_true] at hf
    obtain ⟨τ, c, τs', h1, h2, rfl⟩ := typeOfList_cons h
    rcases List.mem_cons.mp ht with rfl | ht
    · exact flat_typeOf hf.1 h1
    · exact typeOfList_flat' hf.2 h2 t ht

theorem ite_err_ok {c : Bool} {x : CedarType} {y : Capabilities}
    (h : (if c = true then (.error .fail : TcResult) else ok boolT) = .ok (x, y)) : x = boolT ∧ y = [] := by
  split at h
  · cases h
  · simp only [ok, Except.ok.injEq, Prod.mk.injEq] at h; exact ⟨h.1.symm, h.2.symm⟩

mutual
theorem soundM {m : ValidationMode} {s : Schema} {env : RequestEnv} {w : World} (hWF : SchemaWF2 s) (henv : EnvMatches s env w.q) :
    ∀ (e : Expr), InFragmentM m env e = true → ∀ (caps : Capabilities) (τ : CedarType) (c' : Capabilities),
      typeOf m s env e caps = .ok (τ, c') → τ.mono = true ∧ (Sem s env w → CapsHold w caps → Good w e τ c')
  | .lit p, _, caps, τ, c', h =>
    ⟨typeOf_mono hWF.toSchemaWF henv (.lit p) rfl caps τ c' h,
     fun hs hc => typeOf_sound_aux hWF.toSchemaWF henv hs.req hs.store (.lit p) rfl caps τ c' h hc⟩
  | .var v, _, caps, τ, c', h =>
    ⟨typeOf_mono hWF.toSchemaWF henv (.var v) rfl caps τ c' h,
     fun hs hc => typeOf_sound_aux hWF.toSchemaWF henv hs.req hs.store (.var v) rfl caps τ c' h hc⟩
  | .slot sid, hf, caps, τ, c', h => by
    cases sid with
    | principal =>
      simp only [InFragmentM] at hf
      cases hsl : env.principalSlot with
      | none => rw [hsl] at hf; cases hf
      | some t =>
        simp only [typeOf, hsl, ok, Except.ok.injEq, Prod.mk.injEq] at h; obtain ⟨rfl, rfl⟩ := h
        refine ⟨rfl, fun hs _ => ?_⟩
        obtain ⟨u, hu, hty⟩ := hs.slots.1 t hsl
        exact Good.value (v := .prim (.entityUID u)) (by simp [evaluate, hu]) (.entity u _ (by simp [hty]))
    | resource =>
      simp only [InFragmentM] at hf
      cases hsl : env.resourceSlot with
      | none => rw [hsl] at hf; cases hf
      | some t =>
        simp only [typeOf, hsl, ok, Except.ok.injEq, Prod.mk.injEq] at h; obtain ⟨rfl, rfl⟩ := h
        refine ⟨rfl, fun hs _ => ?_⟩
        obtain ⟨u, hu, hty⟩ := hs.slots.2 t hsl
        exact Good.value (v := .prim (.entityUID u)) (by simp [evaluate, hu]) (.entity u _ (by simp [hty]))
  | .unknown _ _, _, _, _, _, h => by simp [typeOf] at h
  | .call fn args, hf, caps, τ, c', h => by
    simp only [InFragmentM] at hf
    have ih := soundMList (m := m) hWF henv args hf
    simp only [typeOf] at h
    cases hsig : extSig fn with
    | none =>
      rw [hsig] at h; simp only at h
      split at h <;> cases h
    | some sig =>
      rw [hsig] at h; simp only at h
      cases hL : typeOfList m s env args caps with
      | error err => rw [hL] at h; cases h
      | ok τs =>
        rw [hL] at h; simp only at h
        split at h
        · cases h
        · rename_i hnf
          split at h
          · rename_i hall
            simp only [ok, Except.ok.injEq, Prod.mk.injEq] at h; obtain ⟨rfl, rfl⟩ := h
            have hlen : τs.length = sig.args.length := by
              rw [typeOfList_length hL]
              simp only [Bool.or_eq_true, not_or, bne_iff_ne, ne_eq, Decidable.not_not] at hnf
              exact hnf.1.1
            obtain ⟨_, gl⟩ := ih caps τs hL
            exact ⟨extSig_ret_mono hsig, fun hs hc => call_good hsig (gl hs hc) hlen hall⟩
          · cases h
  | .and a b, hf, caps, τ, c', h => by
    simp only [InFragmentM, Bool.and_eq_true] at hf
    have iha := soundM (m := m) hWF henv a hf.1
    have ihb := soundM (m := m) hWF henv b hf.2
    simp only [typeOf] at h
    cases hA : expectOneOf (typeOf m s env a caps) [boolT] with
    | error err => rw [hA] at h; cases h
    | ok pa =>
      obtain ⟨τa, ca⟩ := pa
      rw [hA] at h; simp only at h
      obtain ⟨hta, hsa⟩ := expectOneOf_ok hA
      have hba := subtype_bool hsa
      obtain ⟨hma, ga⟩ := iha caps τa ca hta
      split at h
      · rename_i hfalse
        simp only [ok, Except.ok.injEq, Prod.mk.injEq] at h; obtain ⟨rfl, rfl⟩ := h
        have := isFalse_eq hfalse; subst this
        refine ⟨rfl, fun hs hc => ⟨?_, fun h => by cases h⟩⟩
        obtain ⟨sa, _⟩ := ga hs hc
        rcases sa.bool_cases hba with ⟨err, he, hp⟩ | ⟨x, hx, hix, _⟩
        · exact TySound.of_err (by simp [evaluate, he]) hp
        · have : x = false := by simpa [boolInst] using hix
          subst this
          exact TySound.of_bool (b := false) (by simp [evaluate, hx, Value.asBool]) (by simp [boolInst]) (fun h => by cases h)
      · cases hB : expectOneOf (typeOf m s env b (caps.union ca)) [boolT] with
        | error err => rw [hB] at h; cases h
        | ok pb =>
          obtain ⟨τb, cb⟩ := pb
          rw [hB] at h; simp only [Except.ok.injEq, Prod.mk.injEq] at h; obtain ⟨rfl, rfl⟩ := h
          obtain ⟨htb, hsb⟩ := expectOneOf_ok hB
          have hbb := subtype_bool hsb
          obtain ⟨hmb, gb⟩ := ihb (caps.union ca) τb cb htb
          refine ⟨andType_mono (bool_of_boolish_mono hba hma) (bool_of_boolish_mono hbb hmb), fun hs hc => ?_⟩
          obtain ⟨sa, sa2⟩ := ga hs hc
          have ihb' := fun hca => gb hs (capsHold_union.mpr ⟨hc, hca⟩)
          refine ⟨and_sound sa hba (fun hca => (ihb' hca).1) hbb (andType_inst hba hbb) (fun h1 h2 => andCaps_hold h1 h2),
            fun htt => ?_⟩
          obtain ⟨rfl, rfl⟩ := andType_tt htt hba hbb
          have hca := sa2 rfl
          exact andCaps_hold hca ((ihb' hca).2 rfl)
  | .or a b, hf, caps, τ, c', h => by
    simp only [InFragmentM, Bool.and_eq_true] at hf
    have iha := soundM (m := m) hWF henv a hf.1
    have ihb := soundM (m := m) hWF henv b hf.2
    simp only [typeOf] at h
    cases hA : expectOneOf (typeOf m s env a caps) [boolT] with
    | error err => rw [hA] at h; cases h
    | ok pa =>
      obtain ⟨τa, ca⟩ := pa
      rw [hA] at h; simp only at h
      obtain ⟨hta, hsa⟩ := expectOneOf_ok hA
      have hba := subtype_bool hsa
      obtain ⟨hma, ga⟩ := iha caps τa ca hta
      split at h
      · rename_i htrue
        simp only [Except.ok.injEq, Prod.mk.injEq] at h; obtain ⟨rfl, rfl⟩ := h
        have := isTrue_eq htrue; subst this
        refine ⟨rfl, fun hs hc => ?_⟩
        obtain ⟨sa, sa2⟩ := ga hs hc
        refine ⟨?_, fun _ => sa2 rfl⟩
        rcases sa.bool_cases hba with ⟨err, he, hp⟩ | ⟨x, hx, hix, hcx⟩
        · exact TySound.of_err (by simp [evaluate, he]) hp
        · have : x = true := by simpa [boolInst] using hix
          subst this
          exact TySound.of_bool (b := true) (by simp [evaluate, hx, Value.asBool]) (by simp [boolInst]) (fun _ => hcx rfl)
      · cases hB : expectOneOf (typeOf m s env b caps) [boolT] with
        | error err => rw [hB] at h; cases h
        | ok pb =>
          obtain ⟨τb, cb⟩ := pb
          rw [hB] at h; simp only [Except.ok.injEq, Prod.mk.injEq] at h; obtain ⟨rfl, rfl⟩ := h
          obtain ⟨htb, hsb⟩ := expectOneOf_ok hB
          have hbb := subtype_bool hsb
          obtain ⟨hmb, gb⟩ := ihb caps τb cb htb
          refine ⟨orType_mono (bool_of_boolish_mono hba hma) (bool_of_boolish_mono hbb hmb), fun hs hc => ?_⟩
          obtain ⟨sa, sa2⟩ := ga hs hc
          obtain ⟨sb, sb2⟩ := gb hs hc
          have hL : boolInst true τa = true → CapsHold w ca → CapsHold w (orCaps τa τb ca cb) := by
            intro hi hca
            unfold orCaps
            split
            · exact sb2 rfl
            · exact hca
            · simp [boolInst] at hi
            · exact capsHold_inter_right hca
          have hR : boolInst true τb = true → CapsHold w cb → CapsHold w (orCaps τa τb ca cb) := by
            intro hi hcb
            unfold orCaps
            split
            · exact hcb
            · simp [boolInst] at hi
            · exact hcb
            · exact capsHold_inter_left hcb
          refine ⟨or_sound sa hba sb hbb (orType_inst hba hbb) hL hR, fun htt => ?_⟩
          rcases orType_tt htt hba hbb with rfl | ⟨rfl, rfl⟩
          · exact hR (by simp [boolInst]) (sb2 rfl)
          · exact hL (by simp [boolInst]) (sa2 rfl)
  | .ite c t e, hf, caps, τ, c', h => by
    simp only [InFragmentM, Bool.and_eq_true] at hf
    obtain ⟨⟨⟨hfc, hft⟩, hfe⟩, hmode⟩ := hf
    have ihc := soundM (m := m) hWF henv c hfc
    have iht := soundM (m := m) hWF henv t hft
    have ihe := soundM (m := m) hWF henv e hfe
    simp only [typeOf] at h
    cases hC : expectOneOf (typeOf m s env c caps) [boolT] with
    | error err => rw [hC] at h; cases h
    | ok pc =>
      obtain ⟨τc, cc⟩ := pc
      rw [hC] at h; simp only at h
      obtain ⟨htc, hsc⟩ := expectOneOf_ok hC
      have hbc := subtype_bool hsc
      obtain ⟨_, gc⟩ := ihc caps τc cc htc
      split at h
      · -- test typed True
        rename_i htrue
        have := isTrue_eq htrue; subst this
        cases hT : typeOf m s env t (caps.union cc) with
        | error err => rw [hT] at h; cases h
        | ok pt =>
          obtain ⟨τt, ct⟩ := pt
          rw [hT] at h; simp only [Except.ok.injEq, Prod.mk.injEq] at h; obtain ⟨rfl, rfl⟩ := h
          obtain ⟨hmt, gt⟩ := iht (caps.union cc) τt ct hT
          refine ⟨hmt, fun hs hc => ?_⟩
          obtain ⟨sc, sc2⟩ := gc hs hc
          have hcond := sc.bool_cases hbc
          have hcc : CapsHold w cc := sc2 rfl
          obtain ⟨st, st2⟩ := gt hs (capsHold_union.mpr ⟨hc, hcc⟩)
          refine ⟨?_, fun htt => capsHold_union.mpr ⟨st2 htt, hcc⟩⟩
          rcases hcond with ⟨err, he, hp⟩ | ⟨x, hx, hix, _⟩
          · exact TySound.of_err (by simp [evaluate, he]) hp
          · have : x = true := by simpa [boolInst] using hix
            subst this
            have heq : w.eval (.ite c t e) = w.eval t := by simp [evaluate, hx, Value.asBool]
            rcases st with ⟨err, he, hp⟩ | ⟨v, hv, hi, hcv⟩
            · exact Or.inl ⟨err, by rw [heq, he], hp⟩
            · exact Or.inr ⟨v, by rw [heq, hv], hi, fun hvt => capsHold_union.mpr ⟨hcv hvt, hcc⟩⟩
      · split at h
        · -- test typed False
          rename_i _ hfalse
          have := isFalse_eq hfalse; subst this
          obtain ⟨hme, ge⟩ := ihe caps τ c' h
          refine ⟨hme, fun hs hc => ?_⟩
          obtain ⟨sc, _⟩ := gc hs hc
          have hcond := sc.bool_cases hbc
          obtain ⟨se, se2⟩ := ge hs hc
          refine ⟨?_, se2⟩
          rcases hcond with ⟨err, he, hp⟩ | ⟨x, hx, hix, _⟩
          · exact TySound.of_err (by simp [evaluate, he]) hp
          · have : x = false := by simpa [boolInst] using hix
            subst this
            have heq : w.eval (.ite c t e) = w.eval e := by simp [evaluate, hx, Value.asBool]
            rcases se with ⟨err, he, hp⟩ | ⟨v, hv, hi, hcv⟩
            · exact Or.inl ⟨err, by rw [heq, he], hp⟩
            · exact Or.inr ⟨v, by rw [heq, hv], hi, hcv⟩
        · -- both branches: least upper bound
          obtain ⟨τt, ct, τe, ce, hT, hE, hk⟩ := both_ok h
          cases hl : lub m τt τe with
          | none => rw [hl] at hk; cases hk
          | some τl =>
            rw [hl] at hk
            simp only [Except.ok.injEq, Prod.mk.injEq] at hk; obtain ⟨rfl, rfl⟩ := hk
            obtain ⟨hmt, gt⟩ := iht (caps.union cc) τt ct hT
            obtain ⟨hme, ge⟩ := ihe caps τe ce hE
            -- what is needed of the least upper bound, per mode
            have hlub : τl.mono = true ∧ (∀ v, InstanceOfType v τt → InstanceOfType v τl) ∧
                (∀ v, InstanceOfType v τe → InstanceOfType v τl) ∧ (τl = .bool .tt → τe = .bool .tt) := by
              cases m with
              | strict =>
                refine ⟨lub_mono hl hmt hme, fun v hv => lub_inst_l hv _ _ hl, fun v hv => lub_inst_r hv _ _ hl, fun htt => ?_⟩
                subst htt
                rcases (lub_tt hl).2 with h1 | h1
                · exact h1
                · exact (mono_ne_never hme h1).elim
              | permissive =>
                simp only [ValidationMode.isStrict, Bool.false_or, Bool.or_eq_true] at hmode
                have hflat' : τt.flat = true ∨ τe.flat = true := by
                  rcases hmode with hf | hf
                  · exact Or.inl (flat_typeOf hf hT)
                  · exact Or.inr (flat_typeOf hf hE)
                obtain ⟨hlt, hle, hshape, httc⟩ := lub_flat hl hflat'
                refine ⟨?_, hlt, hle, fun htt => ?_⟩
                · rcases hshape with h1 | h1 | h1
                  · rw [h1]; exact hmt
                  · rw [h1]; exact hme
                  · rw [h1]; rfl
                · rcases (httc htt).2 with h1 | h1
                  · exact h1
                  · exact (mono_ne_never hme h1).elim
            obtain ⟨hlm, hlt, hle, hltt⟩ := hlub
            refine ⟨hlm, fun hs hc => ?_⟩
            obtain ⟨sc, _⟩ := gc hs hc
            have hcond := sc.bool_cases hbc
            obtain ⟨se, se2⟩ := ge hs hc
            have iht' := fun hcc => gt hs (capsHold_union.mpr ⟨hc, hcc⟩)
            refine ⟨?_, fun htt => ?_⟩
            · rcases hcond with ⟨err, he, hp⟩ | ⟨x, hx, hix, hcx⟩
              · exact TySound.of_err (by simp [evaluate, he]) hp
              · cases x with
                | true =>
                  have hcc := hcx rfl
                  have heq : w.eval (.ite c t e) = w.eval t := by simp [evaluate, hx, Value.asBool]
                  rcases (iht' hcc).1 with ⟨err, he, hp⟩ | ⟨v, hv, hi, hcv⟩
                  · exact Or.inl ⟨err, by rw [heq, he], hp⟩
                  · exact Or.inr ⟨v, by rw [heq, hv], hlt v hi,
                      fun hvt => capsHold_inter_right (capsHold_union.mpr ⟨hcv hvt, hcc⟩)⟩
                | false =>
                  have heq : w.eval (.ite c t e) = w.eval e := by simp [evaluate, hx, Value.asBool]
                  rcases se with ⟨err, he, hp⟩ | ⟨v, hv, hi, hcv⟩
                  · exact Or.inl ⟨err, by rw [heq, he], hp⟩
                  · exact Or.inr ⟨v, by rw [heq, hv], hle v hi, fun hvt => capsHold_inter_left (hcv hvt)⟩
            · -- typed True: the else branch is typed True, so its capabilities hold unconditionally
              exact capsHold_inter_left (se2 (hltt htt))
  | .unaryApp op a, hf, caps, τ, c', h => by
    simp only [InFragmentM] at hf
    have iha := soundM (m := m) hWF henv a hf
    cases op with
    | not =>
      simp only [typeOf] at h
      cases hA : expectOneOf (typeOf m s env a caps) [boolT] with
      | error err => rw [hA] at h; cases h
      | ok pa =>
        obtain ⟨τa, ca⟩ := pa
        rw [hA] at h
        obtain ⟨hta, hsa⟩ := expectOneOf_ok hA
        have hba := subtype_bool hsa
        obtain ⟨_, ga⟩ := iha caps τa ca hta
        rcases hba with rfl | ⟨bt, rfl⟩
        · simp only [ok, Except.ok.injEq, Prod.mk.injEq] at h; obtain ⟨rfl, rfl⟩ := h
          exact ⟨rfl, fun hs hc => ⟨not_sound (ga hs hc).1 (Or.inl rfl) (by intro x hx; simp [boolInst] at hx), fun h => by cases h⟩⟩
        · cases bt <;> simp only [ok, Except.ok.injEq, Prod.mk.injEq] at h <;> obtain ⟨rfl, rfl⟩ := h
          · exact ⟨rfl, fun hs hc => ⟨not_sound (ga hs hc).1 (Or.inr ⟨_, rfl⟩) (by intro x _; simp [boolInst, boolT]), fun h => by cases h⟩⟩
          · exact ⟨rfl, fun hs hc => ⟨not_sound (ga hs hc).1 (Or.inr ⟨_, rfl⟩) (by intro x hx; simpa [boolInst] using hx), fun _ => capsHold_nil w⟩⟩
          · exact ⟨rfl, fun hs hc => ⟨not_sound (ga hs hc).1 (Or.inr ⟨_, rfl⟩) (by intro x hx; simpa [boolInst] using hx), fun _ => capsHold_nil w⟩⟩
    | neg =>
      simp only [typeOf] at h
      cases hA : expectOneOf (typeOf m s env a caps) [.long] with
      | error err => rw [hA] at h; cases h
      | ok pa =>
        obtain ⟨τa, ca⟩ := pa
        rw [hA] at h
        simp only [ok, Except.ok.injEq, Prod.mk.injEq] at h; obtain ⟨rfl, rfl⟩ := h
        obtain ⟨hta, hsa⟩ := expectOneOf_ok hA
        exact ⟨rfl, fun hs hc => neg_sound ((iha caps τa ca hta).2 hs hc).1 (subtype_long hsa)⟩
    | isEmpty =>
      simp only [typeOf] at h
      cases hA : expectOneOf (typeOf m s env a caps) [.set none] with
      | error err => rw [hA] at h; cases h
      | ok pa =>
        obtain ⟨τa, ca⟩ := pa
        rw [hA] at h
        simp only [ok, Except.ok.injEq, Prod.mk.injEq] at h; obtain ⟨rfl, rfl⟩ := h
        obtain ⟨hta, hsa⟩ := expectOneOf_ok hA
        exact ⟨rfl, fun hs hc => isEmpty_good ((iha caps τa ca hta).2 hs hc).1 (shape_set hsa)⟩
  | .binaryApp op a b, hf, caps, τ, c', h => by
    simp only [InFragmentM, Bool.and_eq_true] at hf
    have iha := soundM (m := m) hWF henv a hf.1.2
    have ihb := soundM (m := m) hWF henv b hf.2
    cases op with
    | eq =>
      simp only [typeOf] at h
      obtain ⟨τa, ca, τb, cb, hta, htb, hk⟩ := both_ok h
      split at hk
      · cases hk
      · simp only [ok, Except.ok.injEq, Prod.mk.injEq] at hk; obtain ⟨rfl, rfl⟩ := hk
        obtain ⟨hma, ga⟩ := iha caps τa ca hta
        obtain ⟨hmb, gb⟩ := ihb caps τb cb htb
        obtain ⟨bt, hbt⟩ := eqType_bool env a b τa τb
        exact ⟨by rw [hbt]; rfl, fun hs hc => eq_good henv (ga hs hc).1 (gb hs hc).1 hma hmb⟩
    | less =>
      simp only [typeOf] at h
      obtain ⟨τa, ca, τb, cb, hta, htb, hk⟩ := both_ok h
      obtain ⟨hma, ga⟩ := iha caps τa ca hta
      obtain ⟨hmb, gb⟩ := ihb caps τb cb htb
      have hτ := (cmpType_inv hk (mono_ne_never hma) (mono_ne_never hmb)).1
      exact ⟨by rw [hτ]; rfl, fun hs hc => cmp_good (Or.inl rfl) (ga hs hc).1 (gb hs hc).1 hma hmb hk⟩
    | lessEq =>
      simp only [typeOf] at h
      obtain ⟨τa, ca, τb, cb, hta, htb, hk⟩ := both_ok h
      obtain ⟨hma, ga⟩ := iha caps τa ca hta
      obtain ⟨hmb, gb⟩ := ihb caps τb cb htb
      have hτ := (cmpType_inv hk (mono_ne_never hma) (mono_ne_never hmb)).1
      exact ⟨by rw [hτ]; rfl, fun hs hc => cmp_good (Or.inr rfl) (ga hs hc).1 (gb hs hc).1 hma hmb hk⟩
    | add =>
      simp only [typeOf] at h
      obtain ⟨τa, ca, τb, cb, hA, hB, hk⟩ := both_ok h
      simp only [ok, Except.ok.injEq, Prod.mk.injEq] at hk; obtain ⟨rfl, rfl⟩ := hk
      obtain ⟨hta, hsa⟩ := expectOneOf_ok hA
      obtain ⟨htb, hsb⟩ := expectOneOf_ok hB
      exact ⟨rfl, fun hs hc => arith_sound (Or.inl rfl) ((iha caps τa ca hta).2 hs hc).1 (subtype_long hsa)
        ((ihb caps τb cb htb).2 hs hc).1 (subtype_long hsb)⟩
    | sub =>
      simp only [typeOf] at h
      obtain ⟨τa, ca, τb, cb, hA, hB, hk⟩ := both_ok h
      simp only [ok, Except.ok.injEq, Prod.mk.injEq] at hk; obtain ⟨rfl, rfl⟩ := hk
      obtain ⟨hta, hsa⟩ := expectOneOf_ok hA
      obtain ⟨htb, hsb⟩ := expectOneOf_ok hB
      exact ⟨rfl, fun hs hc => arith_sound (Or.inr (Or.inl rfl)) ((iha caps τa ca hta).2 hs hc).1 (subtype_long hsa)
        ((ihb caps τb cb htb).2 hs hc).1 (subtype_long hsb)⟩
    | mul =>
      simp only [typeOf] at h
      obtain ⟨τa, ca, τb, cb, hA, hB, hk⟩ := both_ok h
      simp only [ok, Except.ok.injEq, Prod.mk.injEq] at hk; obtain ⟨rfl, rfl⟩ := hk
      obtain ⟨hta, hsa⟩ := expectOneOf_ok hA
      obtain ⟨htb, hsb⟩ := expectOneOf_ok hB
      exact ⟨rfl, fun hs hc => arith_sound (Or.inr (Or.inr rfl)) ((iha caps τa ca hta).2 hs hc).1 (subtype_long hsa)
        ((ihb caps τb cb htb).2 hs hc).1 (subtype_long hsb)⟩
    | contains =>
      simp only [typeOf] at h
      obtain ⟨τa, ca, τb, cb, hA, htb, hk⟩ := both_ok h
      obtain ⟨hta, hsa⟩ := expectOneOf_ok hA
      · obtain ⟨rfl, rfl⟩ := ite_err_ok hk
        exact ⟨rfl, fun hs hc => contains_good ((iha caps τa ca hta).2 hs hc).1 (shape_set hsa) ((ihb caps τb cb htb).2 hs hc).1⟩
    | containsAll =>
      simp only [typeOf] at h
      obtain ⟨τa, ca, τb, cb, hA, hB, hk⟩ := both_ok h
      obtain ⟨hta, hsa⟩ := expectOneOf_ok hA
      obtain ⟨htb, hsb⟩ := expectOneOf_ok hB
      · obtain ⟨rfl, rfl⟩ := ite_err_ok hk
        exact ⟨rfl, fun hs hc => containsAll_good ((iha caps τa ca hta).2 hs hc).1 (shape_set hsa)
          ((ihb caps τb cb htb).2 hs hc).1 (shape_set hsb)⟩
    | containsAny =>
      simp only [typeOf] at h
      obtain ⟨τa, ca, τb, cb, hA, hB, hk⟩ := both_ok h
      obtain ⟨hta, hsa⟩ := expectOneOf_ok hA
      obtain ⟨htb, hsb⟩ := expectOneOf_ok hB
      · obtain ⟨rfl, rfl⟩ := ite_err_ok hk
        exact ⟨rfl, fun hs hc => containsAny_good ((iha caps τa ca hta).2 hs hc).1 (shape_set hsa)
          ((ihb caps τb cb htb).2 hs hc).1 (shape_set hsb)⟩
    | mem =>
      simp only [typeOf] at h
      obtain ⟨τa, ca, τb, cb, hA, hB, hk⟩ := both_ok h
      obtain ⟨hta, hsa⟩ := expectOneOf_ok hA
      obtain ⟨htb, hsb⟩ := expectOneOf_ok hB
      obtain ⟨hma, ga⟩ := iha caps τa ca hta
      obtain ⟨hmb, gb⟩ := ihb caps τb cb htb
      have hTa : ∃ Ta, τa = .entity [Ta] := by
        rcases subtype_anyEntity hsa with rfl | rfl | ⟨l, rfl⟩
        · simp [CedarType.mono] at hma
        · simp [CedarType.mono] at hma
        · obtain ⟨T, rfl⟩ := mono_entity hma; exact ⟨T, rfl⟩
      obtain ⟨Ta, rfl⟩ := hTa
      have hshape := shape_in_rhs hmb hsb
      have general : ∀ τ c', typeOfInGeneral s (.entity [Ta]) τb = .ok (τ, c') →
          τ.mono = true ∧ (Sem s env w → CapsHold w caps → Good w (.binaryApp .mem a b) τ c') :=
        fun τ c' hg => ⟨typeOfInGeneral_mono hg, fun hs hc => inGeneral_good hWF hs.store (ga hs hc).1 (gb hs hc).1 hshape hg⟩
      split at hk
      · rename_i l rs hl hrs
        split at hk
        · rename_i hact
          simp only [ok, Except.ok.injEq, Prod.mk.injEq] at hk; obtain ⟨rfl, rfl⟩ := hk
          obtain ⟨al, hal⟩ := asEuid_declared hl hta hact
          refine ⟨?_, fun hs _ => actionIn_good hWF henv hs.store hs.actions hl hrs hal⟩
          rw [typeOfActionIn_eq]; split <;> rfl
        · exact general _ _ hk
      · exact general _ _ hk
    | hasTag =>
      simp only [typeOf] at h
      obtain ⟨τa, ca, τb, cb, hA, hB, hk⟩ := both_ok h
      obtain ⟨hta, hsa⟩ := expectOneOf_ok hA
      obtain ⟨htb, hsb⟩ := expectOneOf_ok hB
      obtain ⟨hma, ga⟩ := iha caps τa ca hta
      obtain ⟨_, gb⟩ := ihb caps τb cb htb
      rcases subtype_anyEntity hsa with rfl | rfl | ⟨l, rfl⟩
      · simp [CedarType.mono] at hma
      · simp [CedarType.mono] at hma
      · obtain ⟨T, rfl⟩ := mono_entity hma
        simp only [Except.ok.injEq, Prod.mk.injEq] at hk; obtain ⟨rfl, rfl⟩ := hk
        exact ⟨by split; rfl; split <;> rfl,
          fun hs hc => hasTag_good hs.store hc (ga hs hc).1 (gb hs hc).1 (subtype_string hsb)⟩
    | getTag =>
      simp only [typeOf] at h
      obtain ⟨τa, ca, τb, cb, hA, hB, hk⟩ := both_ok h
      obtain ⟨hta, hsa⟩ := expectOneOf_ok hA
      obtain ⟨htb, hsb⟩ := expectOneOf_ok hB
      obtain ⟨hma, ga⟩ := iha caps τa ca hta
      obtain ⟨_, gb⟩ := ihb caps τb cb htb
      rcases subtype_anyEntity hsa with rfl | rfl | ⟨l, rfl⟩
      · simp [CedarType.mono] at hma
      · simp [CedarType.mono] at hma
      · obtain ⟨T, rfl⟩ := mono_entity hma
        simp only at hk
        obtain ⟨hm, g⟩ := getTag_good (w := w) (τb := τb) (ca := ca) (cb := cb) hWF.toSchemaWF hk
        exact ⟨hm, fun hs hc => g hs.store hc (ga hs hc).1 (gb hs hc).1 (subtype_string hsb)⟩
  | .getAttr e a, hf, caps, τ, c', h => by
    simp only [InFragmentM] at hf
    have ihe := soundM (m := m) hWF henv e hf
    simp only [typeOf] at h
    cases hE : expectOneOf (typeOf m s env e caps) [.anyEntity, anyRecord] with
    | error err => rw [hE] at h; cases h
    | ok pe =>
      obtain ⟨τe, ce⟩ := pe
      rw [hE] at h
      obtain ⟨hte, hsub⟩ := expectOneOf_ok hE
      obtain ⟨hme, ge⟩ := ihe caps τe ce hte
      have hshape := shape_entityOrRecord hme hsub
      split at h
      · cases h
      · cases h
      · rename_i τe' ce' hne heq
        simp only [Except.ok.injEq, Prod.mk.injEq] at heq; obtain ⟨rfl, rfl⟩ := heq
        cases hl : lookupAttr s τe a with
        | none => rw [hl] at h; cases h
        | some qt =>
          obtain ⟨req, τa⟩ := qt
          rw [hl] at h; simp only at h
          split at h
          · rename_i hcond
            simp only [ok, Except.ok.injEq, Prod.mk.injEq] at h; obtain ⟨rfl, rfl⟩ := h
            exact ⟨lookupAttr_mono hWF.toSchemaWF hme hl,
              fun hs hc => getAttr_good (m := m) hWF.toSchemaWF hs.store hc (ge hs hc).1 hme hshape hl hcond⟩
          · cases h
  | .hasAttr e a, hf, caps, τ, c', h => by
    simp only [InFragmentM] at hf
    have ihe := soundM (m := m) hWF henv e hf
    simp only [typeOf] at h
    cases hE : expectOneOf (typeOf m s env e caps) [.anyEntity, anyRecord] with
    | error err => rw [hE] at h; cases h
    | ok pe =>
      obtain ⟨τe, ce⟩ := pe
      rw [hE] at h
      obtain ⟨hte, hsub⟩ := expectOneOf_ok hE
      obtain ⟨hme, ge⟩ := ihe caps τe ce hte
      have hshape := shape_entityOrRecord hme hsub
      split at h
      · cases h
      · cases h
      · rename_i τe' ce' hne heq
        simp only [Except.ok.injEq, Prod.mk.injEq] at heq; obtain ⟨rfl, rfl⟩ := heq
        have hmono : τ.mono = true := by
          have h' := h
          split at h' <;> simp only [ok, Except.ok.injEq, Prod.mk.injEq] at h' <;> (rw [← h'.1]; split <;> rfl)
        exact ⟨hmono, fun hs hc => hasAttr_good hWF.toSchemaWF hs.store hc (ge hs hc).1 hme hshape h⟩
  | .like e pat, hf, caps, τ, c', h => by
    simp only [InFragmentM] at hf
    have ihe := soundM (m := m) hWF henv e hf
    simp only [typeOf] at h
    cases hE : expectOneOf (typeOf m s env e caps) [.string] with
    | error err => rw [hE] at h; cases h
    | ok pe =>
      obtain ⟨τe, ce⟩ := pe
      rw [hE] at h
      simp only [ok, Except.ok.injEq, Prod.mk.injEq] at h; obtain ⟨rfl, rfl⟩ := h
      obtain ⟨hte, hsub⟩ := expectOneOf_ok hE
      refine ⟨rfl, fun hs hc => ?_⟩
      rcases ((ihe caps τe ce hte).2 hs hc).1 with ⟨err, he, hp⟩ | ⟨v, hv, hi, _⟩
      · exact Good.err (by simp [evaluate, he]) hp
      · obtain ⟨str, rfl⟩ := inst_string hi (subtype_string hsub)
        exact Good.value (v := .prim (.bool (wm pat str.toList))) (by simp [evaluate, hv, Value.asString]) (.anyBool _)
  | .is e ty, hf, caps, τ, c', h => by
    simp only [InFragmentM] at hf
    have ihe := soundM (m := m) hWF henv e hf
    simp only [typeOf] at h
    cases hE : expectOneOf (typeOf m s env e caps) [.anyEntity] with
    | error err => rw [hE] at h; cases h
    | ok pe =>
      obtain ⟨τe, ce⟩ := pe
      rw [hE] at h
      obtain ⟨hte, hsub⟩ := expectOneOf_ok hE
      obtain ⟨hme, ge⟩ := ihe caps τe ce hte
      rcases subtype_anyEntity hsub with rfl | rfl | ⟨l, rfl⟩
      · simp [CedarType.mono] at hme
      · simp [CedarType.mono] at hme
      · obtain ⟨T, rfl⟩ := mono_entity hme
        simp only [ok, Except.ok.injEq, Prod.mk.injEq] at h; obtain ⟨rfl, rfl⟩ := h
        refine ⟨by split; rfl; split <;> rfl, fun hs hc => ?_⟩
        rcases (ge hs hc).1 with ⟨err, he, hp⟩ | ⟨v, hv, hi, _⟩
        · exact ⟨Or.inl ⟨err, by simp [evaluate, he], hp⟩, fun _ => capsHold_nil w⟩
        · obtain ⟨u, rfl, hT⟩ := inst_entity_single hi
          subst hT
          refine ⟨TySound.of_bool (b := u.ty == ty) (by simp [evaluate, hv, Value.asEntity]) ?_ (fun _ => capsHold_nil w),
            fun _ => capsHold_nil w⟩
          by_cases hty : u.ty = ty
          · subst hty; simp [boolInst]
          · simp [boolInst, hty, Ne.symm hty]
  | .set es, hf, caps, τ, c', h => by
    simp only [InFragmentM, Bool.and_eq_true] at hf
    obtain ⟨hf, hmode⟩ := hf
    have ih := soundMList (m := m) hWF henv es hf
    simp only [typeOf] at h
    cases hL : typeOfList m s env es caps with
    | error err => rw [hL] at h; cases h
    | ok τs =>
      rw [hL] at h; simp only at h
      obtain ⟨hms, gl⟩ := ih caps τs hL
      split at h
      · cases h
      · rename_i hne
        cases hlub : lubAll m τs with
        | none => rw [hlub] at h; cases h
        | some τ' =>
          rw [hlub] at h
          simp only [ok, Except.ok.injEq, Prod.mk.injEq] at h; obtain ⟨rfl, rfl⟩ := h
          cases m with
          | strict =>
            have hne' : τs ≠ [] := by
              cases es with
              | nil => simp [ValidationMode.isStrict] at hne
              | cons e es' => obtain ⟨_, _, _, _, _, rfl⟩ := typeOfList_cons hL; simp
            refine ⟨?_, fun hs hc => set_good (gl hs hc) hne' hlub⟩
            simp only [CedarType.mono]
            exact (lubAll_spec hlub hne').2 hms
          | permissive =>
            simp only [ValidationMode.isStrict, Bool.false_or, Bool.and_eq_true, Bool.not_eq_true'] at hmode
            have hne' : τs ≠ [] := by
              cases es with
              | nil => simp at hmode
              | cons e es' => obtain ⟨_, _, _, _, _, rfl⟩ := typeOfList_cons hL; simp
            have hall : ∀ t, t ∈ τs → t.flat = true ∧ t ≠ .never :=
              fun t ht => ⟨typeOfList_flat' hmode.1 hL t ht, mono_ne_never (hms t ht)⟩
            refine ⟨?_, fun hs hc => set_good_flat (gl hs hc) hne' hall hlub⟩
            simp only [CedarType.mono]
            exact (lubAll_flat_spec hlub hne' hall).2
  | .record kvs, hf, caps, τ, c', h => by
    simp only [InFragmentM, Bool.and_eq_true, decide_eq_true_eq] at hf
    have ih := soundMKVs (m := m) hWF henv kvs hf.1
    simp only [typeOf] at h
    cases hL : typeOfKVs m s env kvs caps with
    | error err => rw [hL] at h; cases h
    | ok attrs =>
      rw [hL] at h
      simp only [ok, Except.ok.injEq, Prod.mk.injEq] at h; obtain ⟨rfl, rfl⟩ := h
      obtain ⟨hms, gl⟩ := ih caps attrs hL
      have hn : (attrs.map (·.1)).Nodup := by rw [typeOfKVs_keys hL]; exact hf.2
      exact ⟨by simp only [CedarType.mono]; exact hms, fun hs hc => record_good (gl hs hc) hn⟩
theorem soundMList {m : ValidationMode} {s : Schema} {env : RequestEnv} {w : World} (hWF : SchemaWF2 s) (henv : EnvMatches s env w.q) :
    ∀ (es : List Expr), InFragmentMList m env es = true → ∀ (caps : Capabilities) (τs : List CedarType),
      typeOfList m s env es caps = .ok τs →
      (∀ t, t ∈ τs → t.mono = true) ∧ (Sem s env w → CapsHold w caps → ListGood w es τs)
  | [], _, caps, τs, h => by
    simp only [typeOfList, Except.ok.injEq] at h; subst h
    exact ⟨fun t ht => (by cases ht), fun _ _ => listGood_nil w⟩
  | e :: es, hf, caps, τs, h => by
    simp only [InFragmentMList, Bool.and_eq_true] at hf
    obtain ⟨τ, c, τs', h1, h2, rfl⟩ := typeOfList_cons h
    obtain ⟨hm, g⟩ := soundM (m := m) hWF henv e hf.1 caps τ c h1
    obtain ⟨hms, gs⟩ := soundMList (m := m) hWF henv es hf.2 caps τs' h2
    refine ⟨?_, fun hs hc => listGood_cons (g hs hc).1 (gs hs hc)⟩
    intro t ht
    rcases List.mem_cons.mp ht with rfl | ht
    · exact hm
    · exact hms t ht
theorem soundMKVs {m : ValidationMode} {s : Schema} {env : RequestEnv} {w : World} (hWF : SchemaWF2 s) (henv : EnvMatches s env w.q) :
    ∀ (kvs : List (String × Expr)), InFragmentMKVs m env kvs = true → ∀ (caps : Capabilities) (attrs : Attrs),
      typeOfKVs m s env kvs caps = .ok attrs →
      monoAttrs attrs = true ∧ (Sem s env w → CapsHold w caps → KVsGood w kvs attrs)
  | [], _, caps, attrs, h => by
    simp only [typeOfKVs, Except.ok.injEq] at h; subst h
    exact ⟨rfl, fun _ _ => kvsGood_nil w⟩
  | (k, e) :: es, hf, caps, attrs, h => by
    simp only [InFragmentMKVs, Bool.and_eq_true] at hf
    obtain ⟨τ, c, attrs', h1, h2, rfl⟩ := typeOfKVs_cons h
    obtain ⟨hm, g⟩ := soundM (m := m) hWF henv e hf.1 caps τ c h1
    obtain ⟨hms, gs⟩ := soundMKVs (m := m) hWF henv es hf.2 caps attrs' h2
    refine ⟨?_, fun hs hc => kvsGood_cons (g hs hc).1 (gs hs hc)⟩
    simp only [monoAttrs, Bool.and_eq_true]
    exact ⟨hm, hms⟩
end

/-- the strict-mode instance -/
theorem sound2 {s : Schema} {env : RequestEnv} {w : World} (hWF : SchemaWF2 s) (henv : EnvMatches s env w.q) :
    ∀ (e : Expr), InFragment2 env e = true → ∀ (caps : Capabilities) (τ : CedarType) (c' : Capabilities),
      typeOf .strict s env e caps = .ok (τ, c') → τ.mono = true ∧ (Sem s env w → CapsHold w caps → Good w e τ c') :=
  soundM (m := .strict) hWF henv

end Cedar.C03
