import CedarVerif.Lemmas.TpeViews
/- C14 helpers: the permission queries, given TPE soundness of the definite decision. -/
namespace Cedar.Tpe
open Cedar

theorem mem_candidates {es : Entities} {ty : EntityType} {u : EntityUID} :
    u ∈ candidates es ty ↔ ∃ d, (u, d) ∈ es ∧ u.ty = ty := by
  simp only [candidates, List.mem_map, List.mem_filter, beq_iff_eq]
  constructor
  · rintro ⟨⟨u', d⟩, ⟨hm, ht⟩, rfl⟩; exact ⟨d, hm, ht⟩
  · rintro ⟨d, hm, ht⟩; exact ⟨(u, d), ⟨hm, ht⟩, rfl⟩

/-- the shape shared by `query_resource` and `query_principal`: the three arms on the TPE decision -/
theorem query_arms {cands us : List EntityUID} {resp : Response} {concrete : EntityUID → Decision}
    {auth : EntityUID → List Policy → Decision}
    (hps : ∀ u, auth u resp.policySet = concrete u)
    (h : (match resp.decision with
          | some .allow => some cands
          | some .deny => some []
          | none => some (cands.filter (fun u => auth u resp.policySet == .allow))) = some us)
    (hsound : ∀ d, resp.decision = some d → ∀ u, u ∈ cands → concrete u = d) :
    ∀ u, u ∈ us ↔ u ∈ cands ∧ concrete u = .allow := by
  intro u
  cases hd : resp.decision with
  | none =>
    simp only [hd, Option.some.injEq] at h; subst h
    simp [List.mem_filter, hps]
  | some d =>
    cases d
    · simp only [hd, Option.some.injEq] at h; subst h
      exact ⟨fun hu => ⟨hu, hsound _ hd u hu⟩, fun hu => hu.1⟩
    · simp only [hd, Option.some.injEq] at h; subst h
      constructor
      · intro hu; cases hu
      · rintro ⟨hu, ha⟩; have := hsound _ hd u hu; rw [ha] at this; cases this

end Cedar.Tpe
