import CedarVerif.Lemmas.ManifestSound
/-
C17 helper lemmas, part 6: `merge_values` / `merge_entities` on slices of one value.  Two slices `v₁ v₂` of the same value
`w` (`Trim vᵢ w`) merge into a slice of `w` that keeps what either kept.  "Keeps at least" is `Le` (the preorder induced by
`Trim`: association lists may repeat keys, so `Trim` itself is not reflexive).
-/
namespace Cedar.Manifest
open Cedar

/-! ## the preorder induced by `Trim` -/

/-- `y` keeps at least what `x` keeps -/
def Le (x y : Value) : Prop := ∀ b, Trim b x → Trim b y

theorem Le.refl (x : Value) : Le x x := fun _ h => h
theorem Le.trans {x y z : Value} (h1 : Le x y) (h2 : Le y z) : Le x z := fun b h => h2 b (h1 b h)

/-- the least trimmed copy of a value -/
def botV : Value → Value
  | .record _ => .record []
  | v => v

theorem trim_botV (v : Value) : Trim (botV v) v := by
  cases v with
  | record kvs => simp [botV, Trim, TrimKVs]
  | prim p => simp [botV, Trim]
  | set s => simp [botV, Trim]
  | ext x => simp [botV, Trim]

theorem trim_single {f : String} {b x : Value} {kx : List (String × Value)} (hl : lookupKV kx f = some x) (hb : Trim b x) :
    Trim (.record [(f, b)]) (.record kx) := by
  simp only [Trim, TrimKVs, and_true]
  exact ⟨kx, rfl, x, hl, hb⟩

theorem trim_single_inv {f : String} {b y : Value} (h : Trim (.record [(f, b)]) y) :
    ∃ ky y', y = .record ky ∧ lookupKV ky f = some y' ∧ Trim b y' := by
  simp only [Trim, TrimKVs, and_true] at h
  obtain ⟨ky, e, y', h1, h2⟩ := h
  exact ⟨ky, y', e, h1, h2⟩

/-- a field kept by `x` is kept by everything above `x` -/
theorem le_lookup {kx : List (String × Value)} {y : Value} {f : String} {x' : Value}
    (h : Le (.record kx) y) (hl : lookupKV kx f = some x') :
    ∃ ky y', y = .record ky ∧ lookupKV ky f = some y' ∧ Le x' y' := by
  obtain ⟨ky, y', e, h1, _⟩ := trim_single_inv (h _ (trim_single hl (trim_botV x')))
  refine ⟨ky, y', e, h1, ?_⟩
  intro b hb
  obtain ⟨ky2, y2, e2, h3, h4⟩ := trim_single_inv (h _ (trim_single hl hb))
  rw [e] at e2
  cases e2
  rw [h1] at h3
  cases h3
  exact h4

theorem le_nonrecord {x y : Value} (hx : ∀ kvs, x ≠ .record kvs) (h : Le x y) : y = x := by
  cases x with
  | record kvs => exact absurd rfl (hx kvs)
  | prim p => have := h (.prim p) (by simp [Trim]); simpa [Trim] using this
  | set s => have := h (.set s) (by simp [Trim]); simpa [Trim] using this
  | ext e => have := h (.ext e) (by simp [Trim]); simpa [Trim] using this

theorem le_record_inv {kx : List (String × Value)} {y : Value} (h : Le (.record kx) y) : ∃ ky, y = .record ky := by
  have := h (.record []) (by simp [Trim, TrimKVs])
  simp only [Trim, TrimKVs, and_true] at this
  exact this

theorem trimKVs_insertKV {r1 kvs : List (String × Value)} {k : String} {x w : Value}
    (h : TrimKVs r1 kvs) (hl : lookupKV kvs k = some w) (hx : Trim x w) : TrimKVs (insertKV k x r1) kvs := by
  apply trimKVs_of_lookup
  intro k' a hm
  rcases mem_insertKV k x r1 _ hm with e | hm
  · cases e; exact ⟨w, hl, hx⟩
  · exact trimKVs_mem _ _ h k' a hm

theorem lookupKV_mem {α} : ∀ (kvs : List (String × α)) (k : String) (v : α), lookupKV kvs k = some v → (k, v) ∈ kvs
  | [], _, _, h => by simp [lookupKV] at h
  | (k0, v0) :: rest, k, v, h => by
    simp only [lookupKV] at h
    by_cases e : (k0 == k) = true
    · simp only [e, if_true, Option.some.injEq] at h
      have : k0 = k := by simpa using e
      subst this; subst h; simp
    · simp only [e, Bool.false_eq_true, if_false] at h
      simp [lookupKV_mem rest k v h]

/-! ## merging -/

theorem mergeValues_nonrecord (v1 v2 : Value) (h : ∀ r2, v2 ≠ .record r2) : mergeValues v1 v2 = v1 := by
  cases v2 with
  | record r2 => exact absurd rfl (h r2)
  | prim p => simp [mergeValues]
  | set s => simp [mergeValues]
  | ext x => simp [mergeValues]

mutual
/-- merging keeps what the left operand kept -/
theorem mergeValues_left : ∀ (v2 v1 a : Value), Trim a v1 → Trim a (mergeValues v1 v2)
  | .record r2, v1, a, h => by
    cases v1 with
    | record r1 =>
      obtain ⟨ra, e, hra⟩ := trim_record_inv h
      subst e
      simp only [mergeValues, Trim]
      exact ⟨_, rfl, mergeKVs_left r2 r1 ra hra⟩
    | prim p => simpa [mergeValues] using h
    | set s => simpa [mergeValues] using h
    | ext x => simpa [mergeValues] using h
  | .prim p, v1, a, h => by rw [mergeValues_nonrecord v1 _ (by intro r2; simp)]; exact h
  | .set s, v1, a, h => by rw [mergeValues_nonrecord v1 _ (by intro r2; simp)]; exact h
  | .ext x, v1, a, h => by rw [mergeValues_nonrecord v1 _ (by intro r2; simp)]; exact h
theorem mergeKVs_left : ∀ (r2 r1 ra : List (String × Value)), TrimKVs ra r1 → TrimKVs ra (mergeKVs r1 r2)
  | [], r1, ra, h => by simpa [mergeKVs] using h
  | (k, v2) :: rest, r1, ra, h => by
    unfold mergeKVs
    cases hl : lookupKV r1 k with
    | some v1 =>
      simp only
      apply mergeKVs_left rest
      apply trimKVs_of_lookup
      intro k' a' hm
      obtain ⟨b, hb1, hb2⟩ := trimKVs_mem _ _ h k' a' hm
      rw [lookupKV_insertKV]
      by_cases e : k = k'
      · subst e
        rw [hl] at hb1
        cases hb1
        simp only [beq_self_eq_true, if_true]
        exact ⟨_, rfl, mergeValues_left v2 v1 a' hb2⟩
      · have e' : (k == k') = false := by simpa using e
        simp only [e']
        exact ⟨b, hb1, hb2⟩
    | none =>
      simp only
      apply mergeKVs_left rest
      apply trimKVs_of_lookup
      intro k' a' hm
      obtain ⟨b, hb1, hb2⟩ := trimKVs_mem _ _ h k' a' hm
      rw [lookupKV_insertKV]
      by_cases e : k = k'
      · subst e
        rw [hl] at hb1
        cases hb1
      · have e' : (k == k') = false := by simpa using e
        simp only [e']
        exact ⟨b, hb1, hb2⟩
end

mutual
/-- merging two slices of `w` gives a slice of `w` -/
theorem mergeValues_below : ∀ (v2 v1 w : Value), Trim v1 w → Trim v2 w → Trim (mergeValues v1 v2) w
  | .record r2, v1, w, h1, h2 => by
    simp only [Trim] at h2
    obtain ⟨kvs, e, h2⟩ := h2
    subst e
    obtain ⟨r1, e, h1'⟩ := trim_record_inv h1
    subst e
    simp only [mergeValues, Trim]
    exact ⟨kvs, rfl, mergeKVs_below r2 r1 kvs h1' h2⟩
  | .prim p, v1, w, h1, _ => by rw [mergeValues_nonrecord v1 _ (by intro r2; simp)]; exact h1
  | .set s, v1, w, h1, _ => by rw [mergeValues_nonrecord v1 _ (by intro r2; simp)]; exact h1
  | .ext x, v1, w, h1, _ => by rw [mergeValues_nonrecord v1 _ (by intro r2; simp)]; exact h1
theorem mergeKVs_below : ∀ (r2 r1 kvs : List (String × Value)), TrimKVs r1 kvs → TrimKVs r2 kvs → TrimKVs (mergeKVs r1 r2) kvs
  | [], r1, kvs, h1, _ => by simpa [mergeKVs] using h1
  | (k, v2) :: rest, r1, kvs, h1, h2 => by
    simp only [TrimKVs] at h2
    obtain ⟨⟨w, hw, hv2⟩, h2⟩ := h2
    unfold mergeKVs
    cases hl : lookupKV r1 k with
    | some v1 =>
      simp only
      apply mergeKVs_below rest _ kvs _ h2
      obtain ⟨w1, hw1, hv1⟩ := trimKVs_lookup r1 kvs k v1 h1 hl
      rw [hw] at hw1
      cases hw1
      exact trimKVs_insertKV h1 hw (mergeValues_below v2 v1 w hv1 hv2)
    | none =>
      simp only
      apply mergeKVs_below rest _ kvs _ h2
      exact trimKVs_insertKV h1 hw hv2
end

mutual
/-- merging keeps what the right operand kept -/
theorem mergeValues_right : ∀ (v2 v1 w b : Value), Trim v1 w → Trim v2 w → Trim b v2 → Trim b (mergeValues v1 v2)
  | .record r2, v1, w, b, h1, h2, hb => by
    simp only [Trim] at h2
    obtain ⟨kvs, e, h2⟩ := h2
    subst e
    obtain ⟨r1, e, h1'⟩ := trim_record_inv h1
    subst e
    obtain ⟨rb, e, hb'⟩ := trim_record_inv hb
    subst e
    simp only [mergeValues, Trim]
    refine ⟨_, rfl, ?_⟩
    apply trimKVs_of_lookup
    intro k b' hm
    obtain ⟨x, hx1, hx2⟩ := trimKVs_mem _ _ hb' k b' hm
    exact mergeKVs_right r2 r1 kvs h1' h2 k b' x (lookupKV_mem _ _ _ hx1) hx2
  | .prim p, v1, w, b, h1, h2, hb => by
    rw [mergeValues_nonrecord v1 _ (by intro r2; simp)]
    simp only [Trim] at h2
    subst h2
    rw [trim_prim h1]
    exact hb
  | .set s, v1, w, b, h1, h2, hb => by
    rw [mergeValues_nonrecord v1 _ (by intro r2; simp)]
    simp only [Trim] at h2
    subst h2
    rw [trim_nonrecord h1 (by intro kvs; simp)]
    exact hb
  | .ext x, v1, w, b, h1, h2, hb => by
    rw [mergeValues_nonrecord v1 _ (by intro r2; simp)]
    simp only [Trim] at h2
    subst h2
    rw [trim_nonrecord h1 (by intro kvs; simp)]
    exact hb
theorem mergeKVs_right : ∀ (r2 r1 kvs : List (String × Value)), TrimKVs r1 kvs → TrimKVs r2 kvs →
    ∀ (k : String) (b x : Value), (k, x) ∈ r2 → Trim b x → ∃ y, lookupKV (mergeKVs r1 r2) k = some y ∧ Trim b y
  | [], _, _, _, _, _, _, _, hm, _ => by simp at hm
  | (k0, v2) :: rest, r1, kvs, h1, h2, k, b, x, hm, hb => by
    simp only [TrimKVs] at h2
    obtain ⟨⟨w, hw, hv2⟩, h2⟩ := h2
    unfold mergeKVs
    simp only [List.mem_cons, Prod.mk.injEq] at hm
    cases hl : lookupKV r1 k0 with
    | some v1 =>
      simp only
      obtain ⟨w1, hw1, hv1⟩ := trimKVs_lookup r1 kvs k0 v1 h1 hl
      rw [hw] at hw1
      cases hw1
      have h1' : TrimKVs (insertKV k0 (mergeValues v1 v2) r1) kvs :=
        trimKVs_insertKV h1 hw (mergeValues_below v2 v1 w hv1 hv2)
      rcases hm with ⟨e1, e2⟩ | hm
      · subst e1; subst e2
        -- the head binding: present after the insertion, preserved by the remaining merges
        have hk : TrimKVs [(k, b)] (insertKV k (mergeValues v1 x) r1) := by
          simp only [TrimKVs, and_true]
          exact ⟨_, by rw [lookupKV_insertKV]; simp, mergeValues_right x v1 w b hv1 hv2 hb⟩
        have := mergeKVs_left rest _ _ hk
        simp only [TrimKVs, and_true] at this
        exact this
      · exact mergeKVs_right rest _ kvs h1' h2 k b x hm hb
    | none =>
      simp only
      have h1' : TrimKVs (insertKV k0 v2 r1) kvs := trimKVs_insertKV h1 hw hv2
      rcases hm with ⟨e1, e2⟩ | hm
      · subst e1; subst e2
        have hk : TrimKVs [(k, b)] (insertKV k x r1) := by
          simp only [TrimKVs, and_true]
          exact ⟨_, by rw [lookupKV_insertKV]; simp, hb⟩
        have := mergeKVs_left rest _ _ hk
        simp only [TrimKVs, and_true] at this
        exact this
      · exact mergeKVs_right rest _ kvs h1' h2 k b x hm hb
end

end Cedar.Manifest
