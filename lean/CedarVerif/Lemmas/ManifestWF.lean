import CedarVerif.Lemmas.ManifestSlicer
/-
C17 helper lemmas, part 10: the tries the analysis computes have unique children keys (`RootsWF`), provided the record
types annotated on the typed AST have unique attribute names (`TypeUK`; they are `BTreeMap`s in Rust).
-/
namespace Cedar.Manifest
open Cedar

/-! ## union keeps keys unique -/

theorem lookupField_wf : ∀ (c : Fields) (k : String) (t : AccessTrie), fieldsWF c → lookupField c k = some t → AccessTrie.WF t
  | [], _, _, _, h => by simp [lookupField] at h
  | (k0, t0) :: rest, k, t, hwf, h => by
    simp only [fieldsWF] at hwf
    simp only [lookupField] at h
    by_cases e : (k0 == k) = true
    · simp only [e, if_true, Option.some.injEq] at h
      subst h; exact hwf.2.1
    · simp only [e, Bool.false_eq_true, if_false] at h
      exact lookupField_wf rest k t hwf.2.2 h

theorem lookupField_append_single (k : String) (v : AccessTrie) (k' : String) : ∀ (c : Fields),
    lookupField c k' = none → k ≠ k' → lookupField (c ++ [(k, v)]) k' = none
  | [], _, hne => by
    have : (k == k') = false := by simpa using hne
    simp [lookupField, this]
  | (k0, t0) :: rest, h, hne => by
    simp only [lookupField] at h
    by_cases e : (k0 == k') = true
    · simp [e] at h
    · simp only [e, Bool.false_eq_true, if_false] at h
      simp only [List.cons_append, lookupField, e, Bool.false_eq_true, if_false]
      exact lookupField_append_single k v k' rest h hne

theorem fieldsWF_append_single (k : String) (v : AccessTrie) (hv : AccessTrie.WF v) : ∀ (c : Fields),
    fieldsWF c → lookupField c k = none → fieldsWF (c ++ [(k, v)])
  | [], _, _ => by simp [fieldsWF, lookupField, hv]
  | (k0, t0) :: rest, hwf, h => by
    simp only [fieldsWF] at hwf
    simp only [lookupField] at h
    by_cases e : (k0 == k) = true
    · simp [e] at h
    · simp only [e, Bool.false_eq_true, if_false] at h
      simp only [List.cons_append, fieldsWF]
      refine ⟨lookupField_append_single k v k0 rest hwf.1 ?_, hwf.2.1, fieldsWF_append_single k v hv rest hwf.2.2 h⟩
      intro e'
      subst e'
      simp at e

theorem lookupField_replaceField_none (k : String) (t : AccessTrie) (k' : String) : ∀ (c : Fields),
    lookupField c k' = none → lookupField (replaceField k t c) k' = none
  | [], _ => by simp [replaceField, lookupField]
  | (k0, t0) :: rest, h => by
    simp only [lookupField] at h
    by_cases e : (k0 == k') = true
    · simp [e] at h
    · simp only [e, Bool.false_eq_true, if_false] at h
      simp only [replaceField]
      by_cases e2 : (k0 == k) = true
      · have : k0 = k := by simpa using e2
        subst this
        simp only [e2, if_true, lookupField, e, Bool.false_eq_true, if_false]
        exact h
      · simp only [e2, Bool.false_eq_true, if_false, lookupField, e]
        exact lookupField_replaceField_none k t k' rest h

theorem fieldsWF_replaceField (k : String) (t : AccessTrie) (ht : AccessTrie.WF t) : ∀ (c : Fields),
    fieldsWF c → fieldsWF (replaceField k t c)
  | [], _ => by simp [replaceField, fieldsWF]
  | (k0, t0) :: rest, hwf => by
    simp only [fieldsWF] at hwf
    simp only [replaceField]
    by_cases e2 : (k0 == k) = true
    · have : k0 = k := by simpa using e2
      subst this
      simp only [e2, if_true, fieldsWF]
      exact ⟨hwf.1, ht, hwf.2.2⟩
    · simp only [e2, Bool.false_eq_true, if_false, fieldsWF]
      exact ⟨lookupField_replaceField_none k t k0 rest hwf.1, hwf.2.1, fieldsWF_replaceField k t ht rest hwf.2.2⟩

mutual
theorem union_wf : ∀ (t2 t1 : AccessTrie), AccessTrie.WF t1 → AccessTrie.WF t2 → AccessTrie.WF (t1.union t2)
  | .mk c2 a2 i2 e2, .mk c1 a1 i1 e1, h1, h2 => by
    simp only [AccessTrie.union, AccessTrie.WF] at h1 h2 ⊢
    exact unionFields_wf c2 c1 h1 h2
theorem unionFields_wf : ∀ (c2 c1 : Fields), fieldsWF c1 → fieldsWF c2 → fieldsWF (unionFields c1 c2)
  | [], c1, h1, _ => by simpa [unionFields] using h1
  | (k, v) :: rest, c1, h1, h2 => by
    simp only [fieldsWF] at h2
    unfold unionFields
    cases h : lookupField c1 k with
    | none =>
      simp only
      exact unionFields_wf rest _ (fieldsWF_append_single k v h2.2.1 c1 h1 h) h2.2.2
    | some t =>
      simp only
      exact unionFields_wf rest _
        (fieldsWF_replaceField k _ (union_wf v t (lookupField_wf c1 k t h1 h) h2.2.1) c1 h1) h2.2.2
end

theorem lookupRoot_wf : ∀ (c : RootAccessTrie) (k : EntityRoot) (t : AccessTrie), RootsWF c → lookupRoot c k = some t → AccessTrie.WF t
  | [], _, _, _, h => by simp [lookupRoot] at h
  | (k0, t0) :: rest, k, t, hwf, h => by
    simp only [RootsWF] at hwf
    simp only [lookupRoot] at h
    by_cases e : (k0 == k) = true
    · simp only [e, if_true, Option.some.injEq] at h
      subst h; exact hwf.1
    · simp only [e, Bool.false_eq_true, if_false] at h
      exact lookupRoot_wf rest k t hwf.2 h

theorem rootsWF_append : ∀ (c1 c2 : RootAccessTrie), RootsWF c1 → RootsWF c2 → RootsWF (c1 ++ c2)
  | [], _, _, h2 => h2
  | (k0, t0) :: rest, c2, h1, h2 => by
    simp only [RootsWF] at h1
    simp only [List.cons_append, RootsWF]
    exact ⟨h1.1, rootsWF_append rest c2 h1.2 h2⟩

theorem rootsWF_replaceRoot (k : EntityRoot) (t : AccessTrie) (ht : AccessTrie.WF t) : ∀ (c : RootAccessTrie),
    RootsWF c → RootsWF (replaceRoot k t c)
  | [], _ => by simp [replaceRoot, RootsWF]
  | (k0, t0) :: rest, hwf => by
    simp only [RootsWF] at hwf
    simp only [replaceRoot]
    by_cases e2 : (k0 == k) = true
    · simp only [e2, if_true, RootsWF]
      exact ⟨ht, hwf.2⟩
    · simp only [e2, Bool.false_eq_true, if_false, RootsWF]
      exact ⟨hwf.1, rootsWF_replaceRoot k t ht rest hwf.2⟩

theorem unionRoots_wf : ∀ (a2 a1 : RootAccessTrie), RootsWF a1 → RootsWF a2 → RootsWF (unionRoots a1 a2)
  | [], a1, h1, _ => by simpa [unionRoots] using h1
  | (k, v) :: rest, a1, h1, h2 => by
    simp only [RootsWF] at h2
    unfold unionRoots
    cases h : lookupRoot a1 k with
    | none =>
      simp only
      exact unionRoots_wf rest _ (rootsWF_append a1 [(k, v)] h1 (by simp [RootsWF, h2.1])) h2.2
    | some t =>
      simp only
      exact unionRoots_wf rest _ (rootsWF_replaceRoot k _ (union_wf v t (lookupRoot_wf a1 k t h1 h) h2.1) a1 h1) h2.2

/-! ## the pieces of the analysis -/

theorem pathTrie_wf (leaf : AccessTrie) (hl : AccessTrie.WF leaf) : ∀ fs : List String, AccessTrie.WF (pathTrie fs leaf)
  | [] => hl
  | f :: fs => by
    simp only [pathTrie, AccessTrie.WF, fieldsWF, lookupField, and_true, true_and]
    exact pathTrie_wf leaf hl fs

theorem toRootTrieWithLeaf_wf (root : EntityRoot) (fs : List String) (leaf : AccessTrie) (hl : AccessTrie.WF leaf) :
    RootsWF (toRootTrieWithLeaf root fs leaf) := by
  simp only [toRootTrieWithLeaf]
  split
  · simp [RootsWF]
  · simp only [RootsWF, and_true]
    exact pathTrie_wf leaf hl fs

-- record types with unique attribute names
mutual
def TypeUK : CedarType → Prop
  | .record attrs _ => AttrsUK attrs
  | .set (some t) => TypeUK t
  | _ => True
def AttrsUK : List (String × Bool × CedarType) → Prop
  | [] => True
  | (k, _, t) :: rest => lookupField (attrsToFields rest) k = none ∧ TypeUK t ∧ AttrsUK rest
end

mutual
theorem typeToAccessTrie_wf : ∀ (ty : CedarType), TypeUK ty → AccessTrie.WF (typeToAccessTrie ty)
  | .record attrs o, h => by
    simp only [TypeUK] at h
    simp only [typeToAccessTrie, AccessTrie.WF]
    exact attrsToFields_wf attrs h
  | .never, _ => by simp [typeToAccessTrie, AccessTrie.new, AccessTrie.WF, fieldsWF]
  | .bool _, _ => by simp [typeToAccessTrie, AccessTrie.new, AccessTrie.WF, fieldsWF]
  | .long, _ => by simp [typeToAccessTrie, AccessTrie.new, AccessTrie.WF, fieldsWF]
  | .string, _ => by simp [typeToAccessTrie, AccessTrie.new, AccessTrie.WF, fieldsWF]
  | .set _, _ => by simp [typeToAccessTrie, AccessTrie.new, AccessTrie.WF, fieldsWF]
  | .entity _, _ => by simp [typeToAccessTrie, AccessTrie.new, AccessTrie.WF, fieldsWF]
  | .anyEntity, _ => by simp [typeToAccessTrie, AccessTrie.new, AccessTrie.WF, fieldsWF]
  | .ext _, _ => by simp [typeToAccessTrie, AccessTrie.new, AccessTrie.WF, fieldsWF]
theorem attrsToFields_wf : ∀ (attrs : List (String × Bool × CedarType)), AttrsUK attrs → fieldsWF (attrsToFields attrs)
  | [], _ => by simp [attrsToFields, fieldsWF]
  | (k, q, t) :: rest, h => by
    simp only [AttrsUK] at h
    simp only [attrsToFields, fieldsWF]
    exact ⟨h.1, typeToAccessTrie_wf t h.2.1, attrsToFields_wf rest h.2.2⟩
end

mutual
theorem addWrapped_wf (isAnc : Bool) (anc : RootAccessTrie) : ∀ (p : WPaths) (g : RootAccessTrie),
    RootsWF g → RootsWF (addWrapped g isAnc anc p)
  | .path root fs, g, h => by
    simp only [addWrapped]
    exact unionRoots_wf _ g h (toRootTrieWithLeaf_wf root fs _ (by simp [AccessTrie.WF, fieldsWF]))
  | .record kvs, g, h => by simp only [addWrapped]; exact addWrappedKVs_wf isAnc anc kvs g h
  | .set elems, g, h => by simp only [addWrapped]; exact addWrapped_wf isAnc anc elems g h
  | .empty, g, h => by simpa [addWrapped] using h
  | .union a b, g, h => by
    simp only [addWrapped]
    exact addWrapped_wf isAnc anc b _ (addWrapped_wf isAnc anc a g h)
theorem addWrappedKVs_wf (isAnc : Bool) (anc : RootAccessTrie) : ∀ (kvs : List (String × WPaths)) (g : RootAccessTrie),
    RootsWF g → RootsWF (addWrappedKVs g isAnc anc kvs)
  | [], g, h => by simpa [addWrappedKVs] using h
  | (k, v) :: rest, g, h => by
    simp only [addWrappedKVs]
    exact addWrappedKVs_wf isAnc anc rest _ (addWrapped_wf isAnc anc v g h)
end

/-- `full_type_required` on a record literal, given that each field's function yields well-formed tries -/
theorem fullTypeRecord_wf (fns : List (String × (CedarType → M RootAccessTrie)))
    (hf : ∀ kf, kf ∈ fns → ∀ ty r, TypeUK ty → kf.2 ty = .ok r → RootsWF r) :
    ∀ (attrs : List (String × Bool × CedarType)) (r : RootAccessTrie), AttrsUK attrs →
      fullTypeRecord fns attrs = .ok r → RootsWF r
  | [], r, _, h => by
    simp only [fullTypeRecord, Except.ok.injEq] at h
    subst h; simp [RootsWF]
  | (attr, q, aty) :: rest, r, huk, h => by
    simp only [AttrsUK] at huk
    simp only [fullTypeRecord] at h
    cases hfind : fns.find? (fun kf => kf.1 == attr) with
    | none => simp [hfind] at h
    | some kf =>
      simp only [hfind] at h
      cases h1 : kf.2 aty with
      | error x => simp [h1] at h
      | ok r1 =>
        simp only [h1] at h
        cases h2 : fullTypeRecord fns rest with
        | error x => simp [h2] at h
        | ok rs =>
          simp only [h2, Except.ok.injEq] at h
          subst h
          exact unionRoots_wf rs r1 (hf kf (List.mem_of_find?_eq_some hfind) aty r1 huk.2.1 h1)
            (fullTypeRecord_wf fns hf rest rs huk.2.2 h2)

mutual
theorem fullTypeRequired_wf : ∀ (p : WPaths) (ty : CedarType) (r : RootAccessTrie), TypeUK ty →
    p.fullTypeRequired ty = .ok r → RootsWF r
  | .path root fs, ty, r, huk, h => by
    simp only [WPaths.fullTypeRequired, Except.ok.injEq] at h
    subst h
    exact toRootTrieWithLeaf_wf root fs _ (typeToAccessTrie_wf ty huk)
  | .record kvs, ty, r, huk, h => by
    cases ty with
    | record attrs o =>
      simp only [WPaths.fullTypeRequired] at h
      simp only [TypeUK] at huk
      exact fullTypeRecord_wf (fullTypeFns kvs) (fullTypeFns_wf kvs) attrs r huk h
    | never => simp [WPaths.fullTypeRequired] at h
    | bool _ => simp [WPaths.fullTypeRequired] at h
    | long => simp [WPaths.fullTypeRequired] at h
    | string => simp [WPaths.fullTypeRequired] at h
    | set _ => simp [WPaths.fullTypeRequired] at h
    | entity _ => simp [WPaths.fullTypeRequired] at h
    | anyEntity => simp [WPaths.fullTypeRequired] at h
    | ext _ => simp [WPaths.fullTypeRequired] at h
  | .set elems, ty, r, huk, h => by
    cases ty with
    | set o =>
      cases o with
      | some ety =>
        simp only [WPaths.fullTypeRequired] at h
        simp only [TypeUK] at huk
        exact fullTypeRequired_wf elems ety r huk h
      | none => simp [WPaths.fullTypeRequired] at h
    | never => simp [WPaths.fullTypeRequired] at h
    | bool _ => simp [WPaths.fullTypeRequired] at h
    | long => simp [WPaths.fullTypeRequired] at h
    | string => simp [WPaths.fullTypeRequired] at h
    | record _ _ => simp [WPaths.fullTypeRequired] at h
    | entity _ => simp [WPaths.fullTypeRequired] at h
    | anyEntity => simp [WPaths.fullTypeRequired] at h
    | ext _ => simp [WPaths.fullTypeRequired] at h
  | .empty, ty, r, _, h => by
    simp only [WPaths.fullTypeRequired, Except.ok.injEq] at h
    subst h; simp [RootsWF]
  | .union a b, ty, r, huk, h => by
    simp only [WPaths.fullTypeRequired] at h
    cases h1 : a.fullTypeRequired ty with
    | error x => simp [h1] at h
    | ok ra =>
      simp only [h1] at h
      cases h2 : b.fullTypeRequired ty with
      | error x => simp [h2] at h
      | ok rb =>
        simp only [h2, Except.ok.injEq] at h
        subst h
        exact unionRoots_wf rb ra (fullTypeRequired_wf a ty ra huk h1) (fullTypeRequired_wf b ty rb huk h2)
theorem fullTypeFns_wf : ∀ (kvs : List (String × WPaths)) (kf : String × (CedarType → M RootAccessTrie)),
    kf ∈ fullTypeFns kvs → ∀ ty r, TypeUK ty → kf.2 ty = .ok r → RootsWF r
  | [], kf, hm, _, _, _, _ => by simp [fullTypeFns] at hm
  | (k, v) :: rest, kf, hm, ty, r, huk, h => by
    simp only [fullTypeFns, List.mem_cons] at hm
    rcases hm with e | hm
    · subst e
      exact fullTypeRequired_wf v ty r huk h
    · exact fullTypeFns_wf rest kf hm ty r huk h
end

/-! ## the analysis -/

def optUK : Option CedarType → Prop
  | some t => TypeUK t
  | none => True

-- all type annotations of a typed AST have unique attribute names
mutual
def TypesUK : TExpr → Prop
  | .ite c t e => TypesUK c ∧ TypesUK t ∧ TypesUK e
  | .and a b => TypesUK a ∧ TypesUK b
  | .or a b => TypesUK a ∧ TypesUK b
  | .unaryApp _ ty a => optUK ty ∧ TypesUK a
  | .binaryApp _ ty1 ty2 a b => optUK ty1 ∧ optUK ty2 ∧ TypesUK a ∧ TypesUK b
  | .call _ args => TypesUKList args
  | .getAttr e _ => TypesUK e
  | .hasAttr e _ => TypesUK e
  | .like e _ => TypesUK e
  | .is e _ => TypesUK e
  | .set es => TypesUKList es
  | .record kvs => TypesUKKVs kvs
  | _ => True
def TypesUKList : List TExpr → Prop
  | [] => True
  | x :: xs => TypesUK x ∧ TypesUKList xs
def TypesUKKVs : List (String × TExpr) → Prop
  | [] => True
  | (_, x) :: xs => TypesUK x ∧ TypesUKKVs xs
end

theorem needTy_uk {o : Option CedarType} {ty : CedarType} (h : needTy o = .ok ty) (huk : optUK o) : TypeUK ty := by
  cases o with
  | none => simp [needTy] at h
  | some t => simp only [needTy, Except.ok.injEq] at h; subst h; exact huk

theorem res_union_wf {a b : Res} (ha : RootsWF a.global) (hb : RootsWF b.global) : RootsWF (a.union b).global :=
  unionRoots_wf _ _ ha hb

theorem res_fullType_wf {r r' : Res} {ty : CedarType} (hr : RootsWF r.global) (huk : TypeUK ty)
    (h : r.fullTypeRequired ty = .ok r') : RootsWF r'.global := by
  simp only [Res.fullTypeRequired] at h
  cases h1 : r.paths.fullTypeRequired ty with
  | error x => simp [h1] at h
  | ok t =>
    simp only [h1, Except.ok.injEq] at h
    subst h
    exact unionRoots_wf t r.global hr (fullTypeRequired_wf _ ty t huk h1)

theorem res_getOrHas_wf {r r' : Res} {attr : String} (hr : RootsWF r.global) (h : r.getOrHasAttr attr = .ok r') :
    RootsWF r'.global := by
  simp only [Res.getOrHasAttr] at h
  cases h1 : r.paths.getOrHasAttr attr with
  | error x => simp [h1] at h
  | ok p =>
    simp only [h1, Except.ok.injEq] at h
    subst h
    exact addWrapped_wf false [] p r.global hr

theorem primPair_wf {ra rb : M Res} {r : Res} (h : primPair ra rb = .ok r)
    (ha : ∀ x, ra = .ok x → RootsWF x.global) (hb : ∀ x, rb = .ok x → RootsWF x.global) : RootsWF r.global := by
  cases ra with
  | error x => simp [primPair] at h
  | ok xa =>
    cases rb with
    | error x => simp [primPair] at h
    | ok xb =>
      simp only [primPair, Except.ok.injEq] at h
      subst h
      exact unionRoots_wf _ _ (ha xa rfl) (hb xb rfl)

theorem fromRoot_wf (root : EntityRoot) : RootsWF (Res.fromRoot root).global := by
  simp only [Res.fromRoot]
  exact toRootTrieWithLeaf_wf root [] _ (by simp [AccessTrie.new, AccessTrie.WF, fieldsWF])

mutual
theorem manifestOfExpr_wf : ∀ (e : TExpr) (r : Res), TypesUK e → manifestOfExpr e = .ok r → RootsWF r.global
  | .slot sl, r, _, h => by
    cases sl <;> (simp only [manifestOfExpr, Except.ok.injEq] at h; subst h; exact fromRoot_wf _)
  | .var v, r, _, h => by
    simp only [manifestOfExpr, Except.ok.injEq] at h; subst h; exact fromRoot_wf _
  | .lit p, r, _, h => by
    cases p with
    | entityUID u => simp only [manifestOfExpr, Except.ok.injEq] at h; subst h; exact fromRoot_wf _
    | bool b => simp only [manifestOfExpr, Except.ok.injEq] at h; subst h; simp [Res.default, RootsWF]
    | int n => simp only [manifestOfExpr, Except.ok.injEq] at h; subst h; simp [Res.default, RootsWF]
    | string s => simp only [manifestOfExpr, Except.ok.injEq] at h; subst h; simp [Res.default, RootsWF]
  | .unknown n, r, _, h => by simp [manifestOfExpr] at h
  | .ite c t e, r, huk, h => by
    simp only [TypesUK] at huk
    simp only [manifestOfExpr] at h
    cases hc : manifestOfExpr c with
    | error x => simp [hc] at h
    | ok rc =>
      simp only [hc] at h
      cases ht : manifestOfExpr t with
      | error x => simp [ht] at h
      | ok rt' =>
        simp only [ht] at h
        cases he : manifestOfExpr e with
        | error x => simp [he] at h
        | ok re =>
          simp only [he, Except.ok.injEq] at h
          subst h
          exact res_union_wf (res_union_wf (manifestOfExpr_wf c rc huk.1 hc) (manifestOfExpr_wf t rt' huk.2.1 ht))
            (manifestOfExpr_wf e re huk.2.2 he)
  | .and a b, r, huk, h => by
    simp only [TypesUK] at huk
    simp only [manifestOfExpr] at h
    exact primPair_wf h (fun x hx => manifestOfExpr_wf a x huk.1 hx) (fun x hx => manifestOfExpr_wf b x huk.2 hx)
  | .or a b, r, huk, h => by
    simp only [TypesUK] at huk
    simp only [manifestOfExpr] at h
    exact primPair_wf h (fun x hx => manifestOfExpr_wf a x huk.1 hx) (fun x hx => manifestOfExpr_wf b x huk.2 hx)
  | .unaryApp op ty a, r, huk, h => by
    simp only [TypesUK] at huk
    cases op with
    | not =>
      simp only [manifestOfExpr] at h
      cases ha : manifestOfExpr a with
      | error x => simp [ha] at h
      | ok ra =>
        simp only [ha, Except.ok.injEq] at h
        subst h
        exact manifestOfExpr_wf a ra huk.2 ha
    | neg =>
      simp only [manifestOfExpr] at h
      cases ha : manifestOfExpr a with
      | error x => simp [ha] at h
      | ok ra =>
        simp only [ha, Except.ok.injEq] at h
        subst h
        exact manifestOfExpr_wf a ra huk.2 ha
    | isEmpty =>
      simp only [manifestOfExpr] at h
      cases hty : needTy ty with
      | error x => simp [hty] at h
      | ok ty' =>
        simp only [hty] at h
        cases ha : manifestOfExpr a with
        | error x => simp [ha] at h
        | ok ra =>
          simp only [ha] at h
          cases hf : ra.fullTypeRequired ty' with
          | error x => simp [hf] at h
          | ok r' =>
            simp only [hf, Except.ok.injEq] at h
            subst h
            exact (res_fullType_wf (manifestOfExpr_wf a ra huk.2 ha) (needTy_uk hty huk.1) hf : RootsWF r'.global)
  | .binaryApp op ty1 ty2 a b, r, huk, h => by
    simp only [TypesUK] at huk
    obtain ⟨hu1, hu2, hua, hub⟩ := huk
    have hprim : primPair (manifestOfExpr a) (manifestOfExpr b) = .ok r → RootsWF r.global := fun h =>
      primPair_wf h (fun x hx => manifestOfExpr_wf a x hua hx) (fun x hx => manifestOfExpr_wf b x hub hx)
    have hfull : (match manifestOfExpr a with
        | .error x => .error x
        | .ok r1 => match manifestOfExpr b with
          | .error x => .error x
          | .ok r2 => match needTy ty1 with
            | .error x => .error x
            | .ok ty1 => match needTy ty2 with
              | .error x => .error x
              | .ok ty2 =>
                let r1 := if op == .mem then r1.withAncestorsRequired r2.paths.toAncestorTrie else r1
                match r1.fullTypeRequired ty1 with
                | .error x => .error x
                | .ok f1 => match r2.fullTypeRequired ty2 with
                  | .error x => .error x
                  | .ok f2 => .ok (f1.union f2).emptyPaths) = Except.ok r → RootsWF r.global := by
      intro h
      cases ha : manifestOfExpr a with
      | error x => simp [ha] at h
      | ok r1 =>
        simp only [ha] at h
        cases hb : manifestOfExpr b with
        | error x => simp [hb] at h
        | ok r2 =>
          simp only [hb] at h
          cases ht1 : needTy ty1 with
          | error x => simp [ht1] at h
          | ok t1 =>
            simp only [ht1] at h
            cases ht2 : needTy ty2 with
            | error x => simp [ht2] at h
            | ok t2 =>
              simp only [ht2] at h
              have h1wf := manifestOfExpr_wf a r1 hua ha
              have h2wf := manifestOfExpr_wf b r2 hub hb
              have h1' : RootsWF (if op == .mem then r1.withAncestorsRequired r2.paths.toAncestorTrie else r1).global := by
                split
                · simp only [Res.withAncestorsRequired]
                  exact addWrapped_wf _ _ _ _ h1wf
                · exact h1wf
              generalize (if op == .mem then r1.withAncestorsRequired r2.paths.toAncestorTrie else r1) = r1' at h h1'
              cases hf1 : r1'.fullTypeRequired t1 with
              | error x => simp [hf1] at h
              | ok f1 =>
                simp only [hf1] at h
                cases hf2 : r2.fullTypeRequired t2 with
                | error x => simp [hf2] at h
                | ok f2 =>
                  simp only [hf2, Except.ok.injEq] at h
                  subst h
                  exact res_union_wf (res_fullType_wf h1' (needTy_uk ht1 hu1) hf1)
                    (res_fullType_wf h2wf (needTy_uk ht2 hu2) hf2)
    cases op <;> simp only [manifestOfExpr] at h <;> first | exact hprim h | exact hfull h | (simp at h)
  | .call fn args, r, huk, h => by
    simp only [TypesUK] at huk
    simp only [manifestOfExpr] at h
    exact manifestUnionList_wf args Res.default r huk (by simp [Res.default, RootsWF]) h
  | .like e p, r, huk, h => by
    simp only [TypesUK] at huk
    simp only [manifestOfExpr] at h
    cases he : manifestOfExpr e with
    | error x => simp [he] at h
    | ok re =>
      simp only [he, Except.ok.injEq] at h
      subst h
      exact manifestOfExpr_wf e re huk he
  | .is e ty, r, huk, h => by
    simp only [TypesUK] at huk
    simp only [manifestOfExpr] at h
    cases he : manifestOfExpr e with
    | error x => simp [he] at h
    | ok re =>
      simp only [he, Except.ok.injEq] at h
      subst h
      exact manifestOfExpr_wf e re huk he
  | .set es, r, huk, h => by
    simp only [TypesUK] at huk
    simp only [manifestOfExpr] at h
    cases hl : manifestUnionList Res.default es with
    | error x => simp [hl] at h
    | ok rl =>
      simp only [hl, Except.ok.injEq] at h
      subst h
      exact manifestUnionList_wf es Res.default rl huk (by simp [Res.default, RootsWF]) hl
  | .record kvs, r, huk, h => by
    simp only [TypesUK] at huk
    simp only [manifestOfExpr] at h
    cases hl : manifestRecord kvs with
    | error x => simp [hl] at h
    | ok gp =>
      obtain ⟨g, ps⟩ := gp
      simp only [hl, Except.ok.injEq] at h
      subst h
      exact manifestRecord_wf kvs g ps huk hl
  | .getAttr e attr, r, huk, h => by
    simp only [TypesUK] at huk
    simp only [manifestOfExpr] at h
    cases he : manifestOfExpr e with
    | error x => simp [he] at h
    | ok re =>
      simp only [he] at h
      exact res_getOrHas_wf (manifestOfExpr_wf e re huk he) h
  | .hasAttr e attr, r, huk, h => by
    simp only [TypesUK] at huk
    simp only [manifestOfExpr] at h
    cases he : manifestOfExpr e with
    | error x => simp [he] at h
    | ok re =>
      simp only [he] at h
      cases hg : re.getOrHasAttr attr with
      | error x => simp [hg] at h
      | ok r' =>
        simp only [hg, Except.ok.injEq] at h
        subst h
        exact (res_getOrHas_wf (manifestOfExpr_wf e re huk he) hg : RootsWF r'.global)
theorem manifestUnionList_wf : ∀ (xs : List TExpr) (acc r : Res), TypesUKList xs → RootsWF acc.global →
    manifestUnionList acc xs = .ok r → RootsWF r.global
  | [], acc, r, _, hacc, h => by
    simp only [manifestUnionList, Except.ok.injEq] at h
    subst h; exact hacc
  | x :: xs, acc, r, huk, hacc, h => by
    simp only [TypesUKList] at huk
    simp only [manifestUnionList] at h
    cases hx : manifestOfExpr x with
    | error e => simp [hx] at h
    | ok rx =>
      simp only [hx] at h
      exact manifestUnionList_wf xs _ r huk.2 (res_union_wf hacc (manifestOfExpr_wf x rx huk.1 hx)) h
theorem manifestRecord_wf : ∀ (kvs : List (String × TExpr)) (g : RootAccessTrie) (ps : List (String × WPaths)),
    TypesUKKVs kvs → manifestRecord kvs = .ok (g, ps) → RootsWF g
  | [], g, ps, _, h => by
    simp only [manifestRecord, Except.ok.injEq, Prod.mk.injEq] at h
    obtain ⟨h1, _⟩ := h
    subst h1; simp [RootsWF]
  | (k, x) :: xs, g, ps, huk, h => by
    simp only [TypesUKKVs] at huk
    simp only [manifestRecord] at h
    cases hx : manifestOfExpr x with
    | error e => simp [hx] at h
    | ok rx =>
      simp only [hx] at h
      cases hr : manifestRecord xs with
      | error e => simp [hr] at h
      | ok gp =>
        obtain ⟨g', ps'⟩ := gp
        simp only [hr, Except.ok.injEq, Prod.mk.injEq] at h
        obtain ⟨h1, _⟩ := h
        subst h1
        exact unionRoots_wf _ _ (manifestOfExpr_wf x rx huk.1 hx) (manifestRecord_wf xs g' ps' huk.2 hr)
end

end Cedar.Manifest
