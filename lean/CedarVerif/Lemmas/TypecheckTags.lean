import CedarVerif.Lemmas.TypecheckLub
import CedarVerif.Lemmas.TypecheckDefs2
/-
C03: soundness of `hasTag` / `getTag` (strict mode): capability flow as for optional attributes.
-/
namespace Cedar.C03

open Cedar

theorem cap_tag_guard (a b : Expr) : (Capability.tag a b).guard = some (.binaryApp .hasTag a b) := by
  unfold Capability.tag
  cases b with
  | lit p => cases p <;> rfl
  | _ => rfl

theorem capHolds_tag {w : World} {a b : Expr} (h : TrueOrPermitted w (.binaryApp .hasTag a b)) : CapsHold w [Capability.tag a b] := by
  apply capsHold_singleton
  intro g hg
  rw [cap_tag_guard] at hg
  cases hg; exact h

theorem cap_tag_true {w : World} {a b : Expr} {caps : Capabilities} {p : Bool} (hc : CapsHold w caps)
    (hcap : caps.has (Capability.tag a b) = true) (hp : w.eval (.binaryApp .hasTag a b) = .ok (.prim (.bool p))) : p = true := by
  have := capsHold_has hc hcap _ (cap_tag_guard a b)
  rcases this with h | ⟨err, h, _⟩
  · rw [hp] at h; simpa using h
  · rw [hp] at h; cases h

theorem tagTypes_single (s : Schema) (T : EntityType) :
    tagTypes s [T] = (match s.entityType? T with
      | some et => (match et.tags with | some t => [t] | none => [])
      | none => []) := by
  unfold tagTypes
  cases h : s.entityType? T with
  | none => simp [List.filterMap, h]
  | some et => cases h2 : et.tags <;> simp [List.filterMap, h, h2]

/-- a tag of a stored entity has the declared tag type -/
theorem entity_tag {s : Schema} {u : EntityUID} {d : EntityData} {k : String} {v : Value}
    (hc : ConformsEntity s u d) (hl : lookupKV d.tags k = some v) :
    ∃ et t, s.entityType? u.ty = some et ∧ et.tags = some t ∧ InstanceOfType v t := by
  unfold ConformsEntity at hc
  by_cases hact : isActionType u.ty = true
  · rw [if_pos hact] at hc
    obtain ⟨_, _, _, htags, _⟩ := hc
    rw [htags] at hl; simp [lookupKV] at hl
  · rw [if_neg hact] at hc
    obtain ⟨et, het, _, _, _, _, _, _, htags, _⟩ := hc
    obtain ⟨t, ht, hi⟩ := htags k v (lookupKV_mem hl)
    exact ⟨et, t, het, ht, hi⟩

/-- what `e.hasTag(k)` evaluates to, given well-typed operands -/
theorem hasTag_eval {w : World} {a b : Expr} {u : EntityUID} {k : String}
    (hv1 : w.eval a = .ok (.prim (.entityUID u))) (hv2 : w.eval b = .ok (.prim (.string k))) :
    w.eval (.binaryApp .hasTag a b) = .ok (.prim (.bool (match w.es.find? u with
      | none => false
      | some d => (lookupKV d.tags k).isSome))) := by
  simp only [World.eval] at hv1 hv2
  simp only [World.eval, evaluate, hv1, hv2, applyBinary, Value.asEntity, Value.asString, bind, Except.bind]
  cases w.es.find? u <;> rfl

theorem hasTag_good {s : Schema} {w : World} {a b : Expr} {caps : Capabilities} {T : EntityType} {τb : CedarType}
    {ca cb : Capabilities} (hst : StoreConforms s w.es) (hc : CapsHold w caps)
    (sa : TySound w a (.entity [T]) ca) (sb : TySound w b τb cb) (hτb : τb = .never ∨ τb = .string) :
    Good w (.binaryApp .hasTag a b)
      (if (tagTypes s [T]).isEmpty then .bool .ff else if caps.has (Capability.tag a b) then .bool .tt else boolT)
      [Capability.tag a b] := by
  suffices hs : TySound w (.binaryApp .hasTag a b)
      (if (tagTypes s [T]).isEmpty then .bool .ff else if caps.has (Capability.tag a b) then .bool .tt else boolT)
      [Capability.tag a b] by
    refine ⟨hs, fun htt => ?_⟩
    rw [htt] at hs
    exact capHolds_tag (sound_tt hs)
  rcases sa with ⟨err, he, hp⟩ | ⟨v1, hv1, hi1, _⟩
  · exact TySound.of_err (by simp [evaluate, he]) hp
  · obtain ⟨u, rfl, hT⟩ := inst_entity_single hi1
    subst hT
    rcases sb with ⟨err, he, hp⟩ | ⟨v2, hv2, hi2, _⟩
    · exact TySound.of_err (by simp only [World.eval] at hv1 he; simp [evaluate, hv1, he]) hp
    · obtain ⟨k, rfl⟩ := inst_string hi2 hτb
      have hev := hasTag_eval hv1 hv2
      generalize hpd : (match w.es.find? u with
        | none => false
        | some d => (lookupKV d.tags k).isSome) = p at hev
      refine TySound.of_bool hev ?_ (fun hpt => capHolds_tag (Or.inl (by rw [hev, hpt])))
      by_cases hempty : (tagTypes s [u.ty]).isEmpty = true
      · rw [if_pos hempty]
        -- no tags declared: definitely absent
        have : p = false := by
          cases hf : w.es.find? u with
          | none => rw [hf] at hpd; exact hpd.symm
          | some d =>
            rw [hf] at hpd; simp only at hpd
            cases hl : lookupKV d.tags k with
            | none => rw [hl] at hpd; exact hpd.symm
            | some v =>
              obtain ⟨et, t, het, ht, _⟩ := entity_tag (hst _ _ hf) hl
              rw [tagTypes_single, het] at hempty
              simp only [ht] at hempty
              simp at hempty
        rw [this]; rfl
      · rw [if_neg hempty]
        by_cases hcap : caps.has (Capability.tag a b) = true
        · rw [if_pos hcap, cap_tag_true hc hcap hev]; rfl
        · rw [if_neg hcap]; simp [boolInst, boolT]

theorem lubAll_single (m : ValidationMode) (t : CedarType) : lubAll m [t] = some t := by
  unfold lubAll
  simp only [List.foldl_cons, List.foldl_nil, Option.bind_some]
  rw [lub.eq_def]
  simp [isSubtype]

theorem getTag_good {m : ValidationMode} {s : Schema} {w : World} {a b : Expr} {caps : Capabilities} {T : EntityType} {τb τ : CedarType}
    {ca cb c' : Capabilities} (hWF : SchemaWF s)
    (h : (if caps.has (Capability.tag a b) = true then
            (match tagTypes s [T] with
             | [] => (.error .fail : TcResult)
             | ts => match lubAll m ts with
               | some τ => ok τ
               | none => .error .fail)
          else .error .fail) = .ok (τ, c')) :
    τ.mono = true ∧ (StoreConforms s w.es → CapsHold w caps →
      TySound w a (.entity [T]) ca → TySound w b τb cb → (τb = .never ∨ τb = .string) →
      Good w (.binaryApp .getTag a b) τ c') := by
  split at h
  · rename_i hcap
    rw [tagTypes_single] at h
    cases het : s.entityType? T with
    | none => rw [het] at h; cases h
    | some et =>
      rw [het] at h; simp only at h
      cases htag : et.tags with
      | none => rw [htag] at h; cases h
      | some t =>
        rw [htag] at h
        simp only [lubAll_single, ok, Except.ok.injEq, Prod.mk.injEq] at h
        obtain ⟨rfl, rfl⟩ := h
        refine ⟨(hWF.et_mono _ _ het).2 _ htag, fun hst hc sa sb hτb => ?_⟩
        rcases sa with ⟨err, he, hp⟩ | ⟨v1, hv1, hi1, _⟩
        · exact Good.err (by simp [evaluate, he]) hp
        · obtain ⟨u, rfl, hT⟩ := inst_entity_single hi1
          subst hT
          rcases sb with ⟨err, he, hp⟩ | ⟨v2, hv2, hi2, _⟩
          · exact Good.err (by simp only [World.eval] at hv1 he; simp [evaluate, hv1, he]) hp
          · obtain ⟨k, rfl⟩ := inst_string hi2 hτb
            have hev := hasTag_eval hv1 hv2
            have hp := cap_tag_true hc hcap hev
            simp only [World.eval] at hv1 hv2
            cases hf : w.es.find? u with
            | none =>
              exact Good.err (err := .entity) (by simp [evaluate, hv1, hv2, applyBinary, Value.asEntity, Value.asString, bind, Except.bind, hf]) (Or.inl rfl)
            | some d =>
              rw [hf] at hp; simp only at hp
              cases hl : lookupKV d.tags k with
              | none => rw [hl] at hp; cases hp
              | some v =>
                obtain ⟨et', t', het', ht', hi⟩ := entity_tag (hst _ _ hf) hl
                rw [het] at het'; cases het'
                rw [htag] at ht'; cases ht'
                exact Good.value (v := v) (by simp [evaluate, hv1, hv2, applyBinary, Value.asEntity, Value.asString, bind, Except.bind, hf, hl]) hi
  · cases h

end Cedar.C03
