import CedarVerif.Cedar.NoPanic.Unescape
import CedarVerif.Lemmas.NoPanicUtf8
/-
C20 lemmas for `Cedar/NoPanic/Unescape.lean`: the sub-parsers leave a suffix of the iterator they were given, hence every
callback range of `Unescape::unescape` is `bytes pre .. bytes pre + bytes mid` for a decomposition `src = pre ++ mid ++ post`:
in bounds, ordered, and on char boundaries.
-/
namespace Cedar
namespace NoPanic
open Cedar.Syntax (EscErr hexVal charOfCode isSkippedWs)
open Cedar.Ext.IPAddr (utf8Len)

theorem bytes_append : ∀ (a b : List Char), bytes (a ++ b) = bytes a + bytes b
  | [], b => by simp [bytes]
  | x :: a, b => by simp [bytes, bytes_append a b]; omega

theorem sliceTo_prefix : ∀ (m r : List Char), sliceTo (m ++ r) (bytes m) = some m
  | [], r => by cases r <;> simp [sliceTo, bytes]
  | x :: m, r => by
    have hp := utf8Len_pos x
    have : bytes (x :: m) = (utf8Len x + bytes m - 1) + 1 := by simp [bytes]; omega
    rw [this]
    simp only [List.cons_append, sliceTo]
    have h1 : ¬ (utf8Len x + bytes m - 1 + 1 < utf8Len x) := by omega
    have h2 : utf8Len x + bytes m - 1 + 1 - utf8Len x = bytes m := by omega
    simp [h1, h2, sliceTo_prefix m r]

/-- a range cut out by a decomposition of the string -/
def GoodRange (src : List Char) (a b : Nat) : Prop :=
  ∃ pre mid post, src = pre ++ mid ++ post ∧ a = bytes pre ∧ b = bytes pre + bytes mid

theorem GoodRange.slice {src : List Char} {a b : Nat} (h : GoodRange src a b) :
    ∃ mid, sliceRange src a b = some mid ∧ byteRangeOk src a b = true := by
  obtain ⟨pre, mid, post, rfl, rfl, rfl⟩ := h
  refine ⟨mid, ?_, ?_⟩
  · unfold sliceRange
    have : bytes pre ≤ bytes pre + bytes mid := by omega
    simp only [this, if_true, List.append_assoc, sliceFrom_prefix, Option.bind_some]
    have h2 : bytes pre + bytes mid - bytes pre = bytes mid := by omega
    rw [h2, sliceTo_prefix]
  · simp [byteRangeOk, bytes_append]

/-! ### the sub-parsers return a suffix -/

theorem hexEscape_suffix (l : List Char) : (hexEscape l).2 <:+ l := by
  unfold hexEscape
  split
  · exact List.suffix_refl _
  · split
    · exact List.suffix_cons _ _
    · split
      · exact List.nil_suffix
      · split
        · exact (List.suffix_cons _ _).trans (List.suffix_cons _ _)
        · exact (List.suffix_cons _ _).trans (List.suffix_cons _ _)

theorem unicodeLoop_suffix : ∀ (l : List Char) (value nd : Nat), (unicodeLoop value nd l).2 <:+ l
  | [], _, _ => by simp [unicodeLoop]
  | c :: r, value, nd => by
    unfold unicodeLoop
    split
    · exact (unicodeLoop_suffix r _ _).trans (List.suffix_cons _ _)
    · split
      · exact List.suffix_cons _ _
      · split
        · exact List.suffix_cons _ _
        · split
          · exact (unicodeLoop_suffix r _ _).trans (List.suffix_cons _ _)
          · exact (unicodeLoop_suffix r _ _).trans (List.suffix_cons _ _)

theorem unicodeEscape_suffix (l : List Char) : (unicodeEscape l).2 <:+ l := by
  unfold unicodeEscape
  split
  · exact List.suffix_refl _
  · split
    · exact List.suffix_cons _ _
    · split
      · exact List.nil_suffix
      · have h2 : ∀ {a b : Char} {r : List Char}, r <:+ a :: b :: r :=
          (List.suffix_cons _ _).trans (List.suffix_cons _ _)
        split
        · exact h2
        · split
          · exact h2
          · split
            · exact h2
            · exact (unicodeLoop_suffix _ _ _).trans h2

theorem unescape1_suffix (l : List Char) : (unescape1 l).2 <:+ l := by
  unfold unescape1
  split
  · exact List.suffix_refl _
  · repeat' split
    all_goals first
      | exact List.suffix_cons _ _
      | exact (hexEscape_suffix _).trans (List.suffix_cons _ _)
      | exact (unicodeEscape_suffix _).trans (List.suffix_cons _ _)

theorem suffix_length {a b : List Char} (h : a <:+ b) : a.length ≤ b.length := h.length_le

theorem suffix_bytes {a b : List Char} (h : a <:+ b) : bytes a ≤ bytes b := by
  obtain ⟨t, rfl⟩ := h
  rw [bytes_append]; omega

/-! ### the loop -/

def AllGood (src : List Char) (cbs : List Callback) : Prop := ∀ cb ∈ cbs, GoodRange src cb.start cb.stop

theorem takeWhile_slice (p : Char → Bool) (l : List Char) :
    sliceFrom l (bytes (l.takeWhile p)) = some (l.dropWhile p) := by
  have := sliceFrom_prefix (l.takeWhile p) (l.dropWhile p)
  rwa [List.takeWhile_append_dropWhile] at this

theorem unescapeLoop_ok (src : List Char) : ∀ (n : Nat) (chars : List Char), chars <:+ src → chars.length < n →
    ∃ cbs, unescapeLoop src n chars = .done cbs ∧ AllGood src cbs := by
  intro n
  induction n with
  | zero => intro chars _ h; omega
  | succ n ih =>
    intro chars hsuf hlen
    cases chars with
    | nil => exact ⟨[], by simp [unescapeLoop], by intro cb h; cases h⟩
    | cons c rest =>
      obtain ⟨pre, hsrc⟩ := hsuf
      have hb : bytes src = bytes pre + utf8Len c + bytes rest := by
        rw [← hsrc, bytes_append]; simp [bytes]; omega
      have hrest : rest <:+ src := ⟨pre ++ [c], by rw [← hsrc]; simp⟩
      have hlen' : rest.length < n := by simp at hlen; omega
      -- what `emit` does for a suffix `rest'` of `rest`
      have emit_ok : ∀ (res : Except EscErr Char) (rest' : List Char), rest' <:+ rest →
          ∃ cbs, (if bytes src < bytes rest' then UnescOutcome.panic "src.len() - chars.as_str().len() (usize underflow)"
            else match unescapeLoop src n rest' with
              | .done cbs => .done ({ start := bytes src - bytes rest - utf8Len c, stop := bytes src - bytes rest', res := res } :: cbs)
              | other => other) = .done cbs ∧ AllGood src cbs := by
        intro res rest' hs'
        have hs'' : rest' <:+ src := hs'.trans hrest
        have h1 : ¬ bytes src < bytes rest' := by have := suffix_bytes hs''; omega
        obtain ⟨cbs, hc, hg⟩ := ih rest' hs'' (by have := suffix_length hs'; omega)
        refine ⟨{ start := bytes src - bytes rest - utf8Len c, stop := bytes src - bytes rest', res := res } :: cbs,
          by simp only [h1, if_false, hc], ?_⟩
        intro cb hcb
        rcases List.mem_cons.mp hcb with rfl | hcb
        · obtain ⟨mid, hmid⟩ := hs'
          refine ⟨pre, c :: mid, rest', ?_, ?_, ?_⟩
          · rw [← hsrc, ← hmid]; simp
          · simp only; omega
          · simp only
            have : bytes rest = bytes mid + bytes rest' := by rw [← hmid, bytes_append]
            simp only [bytes]; omega
        · exact hg cb hcb
      have g1 : ¬ bytes src < bytes rest := by omega
      have g2 : ¬ bytes src - bytes rest < utf8Len c := by omega
      unfold unescapeLoop
      simp only [g1, g2, if_false]
      by_cases hc1 : c = '\\'
      · rw [if_pos hc1]
        split
        · rename_i rest1
          simp only [takeWhile_slice]
          have hd : rest1.dropWhile isSkippedWs <:+ src :=
            (List.dropWhile_suffix _).trans ((List.suffix_cons _ _).trans hrest)
          exact ih _ hd (by
            have := suffix_length (List.dropWhile_suffix (l := rest1) isSkippedWs)
            simp at hlen'; omega)
        · exact emit_ok (unescape1 rest).1 (unescape1 rest).2 (unescape1_suffix rest)
      · rw [if_neg hc1]
        by_cases hc2 : c = '"'
        · rw [if_pos hc2]
          have := emit_ok (.error .EscapeOnlyChar) rest (List.suffix_refl _)
          simp only [g1, if_false] at this
          exact this
        · rw [if_neg hc2]
          by_cases hc3 : c = '\r'
          · rw [if_pos hc3]
            have := emit_ok (.error .BareCarriageReturn) rest (List.suffix_refl _)
            simp only [g1, if_false] at this
            exact this
          · rw [if_neg hc3]
            have := emit_ok (.ok c) rest (List.suffix_refl _)
            simp only [g1, if_false] at this
            exact this

theorem unescapeCallbacks_ok (src : List Char) : ∃ cbs, unescapeCallbacks src = .done cbs ∧ AllGood src cbs :=
  unescapeLoop_ok src (src.length + 1) src (List.suffix_refl _) (by omega)

theorem consume_ok (src : List Char) (pat : Bool) : ∀ (cbs : List Callback), AllGood src cbs →
    ∃ acc shown, consume src pat cbs = .ret acc shown
  | [], _ => ⟨true, [], rfl⟩
  | cb :: cbs, h => by
    obtain ⟨acc, shown, hr⟩ := consume_ok src pat cbs (fun x hx => h x (List.mem_cons_of_mem _ hx))
    obtain ⟨mid, hm, hbr⟩ := (h cb (List.mem_cons_self ..)).slice
    unfold consume
    split
    · exact ⟨acc, shown, hr⟩
    · rename_i e _
      simp only [hbr, Bool.not_true, Bool.and_false, Bool.false_eq_true, if_false, hm]
      split
      · exact ⟨acc, shown, hr⟩
      · simp only [hr]
        exact ⟨false, mid :: shown, rfl⟩

theorem unescapeSlices_ok (src : List Char) (pat : Bool) : ∃ acc shown, unescapeSlices src pat = .ret acc shown := by
  unfold unescapeSlices
  obtain ⟨cbs, hc, hg⟩ := unescapeCallbacks_ok src
  rw [hc]
  exact consume_ok src pat cbs hg

end NoPanic
end Cedar
