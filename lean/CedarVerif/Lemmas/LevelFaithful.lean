import CedarVerif.Lemmas.LevelOkInv
import CedarVerif.Lemmas.LevelAnnot
import CedarVerif.Lemmas.TypecheckSound2
/-
C16 helper: the two semantic hypotheses of the level-soundness theorem are CONSEQUENCES of typechecker soundness (C03
`soundM`, every construct).  For the typed AST `te = annotate e caps` of an expression of the C03 fragment, in a world that
satisfies the C03 premises (`Sem`: conformant request and store, action entities present, slots bound) and `caps`:
  * `faithful` — `te.erase` evaluates over the store like `e`: the typechecker's simplifications (`if` with a test typed
    `True` / `False` keeps one branch twice, `a && b` with `a` typed `False` and `a || b` with `a` typed `True` keep `a`) are
    semantics-preserving, errors included, because an expression typed `True` evaluates to `true` or fails, …;
  * `kinds` — every `Entity` / `Record` annotation along evaluated positions agrees with the run-time value (the value is an
    instance of the static type);
  * `slice` — over the level-`n` SLICE `te.erase` evaluates like `e` too, provided the level checker accepted `te` (`Ok`).
    The slice does not satisfy the C03 premises (it lacks action entities), so this is not an instance of `faithful`: a
    dropped operand is justified by evaluating its guard over the slice as over the store (`check_sound` / `deref_sound`
    on the guard's typed AST, whose `Kinds` come from this very induction).
-/
namespace Cedar.Level
open Cedar Cedar.Slice Cedar.C03

/-- what the induction establishes for `te = annotate e caps` -/
structure Res (n : Nat) (env : RequestEnv) (w : World) (te : TExpr) (e : Expr) : Prop where
  faithful : evaluate w.q w.es w.sl te.erase = evaluate w.q w.es w.sl e
  kinds : Kinds w.q w.es w.sl te
  slice : Ok n env.action te →
    evaluate w.q (atLevel n w.q w.es) w.sl te.erase = evaluate w.q (atLevel n w.q w.es) w.sl e

structure ResList (n : Nat) (env : RequestEnv) (w : World) (ts : List TExpr) (es : List Expr) : Prop where
  faithful : evaluateList w.q w.es w.sl (eraseList ts) = evaluateList w.q w.es w.sl es
  kinds : KindsList w.q w.es w.sl ts
  slice : OkList n env.action ts →
    evaluateList w.q (atLevel n w.q w.es) w.sl (eraseList ts) = evaluateList w.q (atLevel n w.q w.es) w.sl es

structure ResKVs (n : Nat) (env : RequestEnv) (w : World) (ts : List (String × TExpr)) (es : List (String × Expr)) : Prop where
  faithful : evaluateKVs w.q w.es w.sl (eraseKVs ts) = evaluateKVs w.q w.es w.sl es
  kinds : KindsKVs w.q w.es w.sl ts
  slice : OkKVs n env.action ts →
    evaluateKVs w.q (atLevel n w.q w.es) w.sl (eraseKVs ts) = evaluateKVs w.q (atLevel n w.q w.es) w.sl es

variable {m : ValidationMode} {s : Schema} {env : RequestEnv} {w : World} {n : Nat}

/-- an accepted subexpression evaluates over the slice as over the store -/
theorem Res.sliceStore {te : TExpr} {e : Expr} (hact : w.q.action = env.action) (r : Res n env w te e)
    (hok : Ok n env.action te) :
    evaluate w.q (atLevel n w.q w.es) w.sl e = evaluate w.q w.es w.sl e := by
  rw [← r.slice hok, sliceEq_of_ok hact r.kinds hok, r.faithful]

theorem good_of (hWF : SchemaWF2 s) (henv : EnvMatches s env w.q) (hs : Sem s env w) {e : Expr}
    (hf : InFragmentM m env e = true) {caps : Capabilities} {τ : CedarType} {c' : Capabilities}
    (ht : typeOf m s env e caps = .ok (τ, c')) (hc : CapsHold w caps) : τ.mono = true ∧ Good w e τ c' := by
  obtain ⟨hm, g⟩ := soundM hWF henv e hf caps τ c' ht
  exact ⟨hm, g hs hc⟩

/-- typed `False`: evaluates to `false` or fails -/
theorem ff_cases {e : Expr} {c : Capabilities} (g : Good w e (.bool .ff) c) :
    evaluate w.q w.es w.sl e = .ok (.prim (.bool false)) ∨ ∃ err, evaluate w.q w.es w.sl e = .error err := by
  rcases g.1 with ⟨err, he, _⟩ | ⟨v, hv, hi, _⟩
  · exact Or.inr ⟨err, he⟩
  · cases hi; exact Or.inl hv

/-- typed `True`: evaluates to `true` or fails, and its capabilities hold unconditionally -/
theorem tt_cases {e : Expr} {c : Capabilities} (g : Good w e (.bool .tt) c) :
    (evaluate w.q w.es w.sl e = .ok (.prim (.bool true)) ∨ ∃ err, evaluate w.q w.es w.sl e = .error err) ∧ CapsHold w c := by
  refine ⟨?_, g.2 rfl⟩
  rcases g.1 with ⟨err, he, _⟩ | ⟨v, hv, hi, _⟩
  · exact Or.inr ⟨err, he⟩
  · cases hi; exact Or.inl hv

theorem caps_of_true {e : Expr} {τ : CedarType} {c : Capabilities} (g : Good w e τ c)
    (h : evaluate w.q w.es w.sl e = .ok (.prim (.bool true))) : CapsHold w c := by
  rcases g.1 with ⟨err, he, _⟩ | ⟨v, hv, _, hcv⟩
  · have : w.eval e = evaluate w.q w.es w.sl e := rfl
    rw [this, h] at he; cases he
  · have : w.eval e = evaluate w.q w.es w.sl e := rfl
    rw [this, h] at hv
    cases hv
    exact hcv rfl

theorem not_false_of {X : Entities} {e : Expr}
    (h : evaluate w.q X w.sl e = .ok (.prim (.bool true)) ∨ ∃ err, evaluate w.q X w.sl e = .error err)
    (h' : evaluate w.q X w.sl e = .ok (.prim (.bool false))) : False := by
  rcases h with h | ⟨err, h⟩ <;> rw [h] at h' <;> cases h'

theorem not_true_of {X : Entities} {e : Expr}
    (h : evaluate w.q X w.sl e = .ok (.prim (.bool false)) ∨ ∃ err, evaluate w.q X w.sl e = .error err)
    (h' : evaluate w.q X w.sl e = .ok (.prim (.bool true))) : False := by
  rcases h with h | ⟨err, h⟩ <;> rw [h] at h' <;> cases h'

/-- the kind of a sound static type describes the value -/
theorem kind_matches {e : Expr} {τ : CedarType} {c : Capabilities} (hm : τ.mono = true) (g : Good w e τ c) {v : Value}
    (hv : evaluate w.q w.es w.sl e = .ok v) : (kindOf τ).matches v = true := by
  rcases g.1 with ⟨err, he, _⟩ | ⟨v', hv', hi, _⟩
  · have : w.eval e = evaluate w.q w.es w.sl e := rfl
    rw [this, hv] at he; cases he
  · have : w.eval e = evaluate w.q w.es w.sl e := rfl
    rw [this, hv] at hv'
    cases hv'
    cases τ with
    | entity l =>
      obtain ⟨T, rfl⟩ := mono_entity hm
      obtain ⟨u, rfl, _⟩ := inst_entity_single hi
      rfl
    | record attrs o =>
      obtain ⟨kvs, rfl⟩ := inst_record hi
      rfl
    | never => rfl
    | bool _ => rfl
    | long => rfl
    | string => rfl
    | set _ => rfl
    | anyEntity => rfl
    | ext _ => rfl

mutual
theorem annot_res (hWF : SchemaWF2 s) (henv : EnvMatches s env w.q) (hs : Sem s env w) :
    ∀ (e : Expr), InFragmentM m env e = true → ∀ (caps : Capabilities) (te : TExpr),
      annotate m s env e caps = .ok te → CapsHold w caps → Res n env w te e
  | .lit p, _, caps, te, h, _ => by
    simp only [annotate, Except.ok.injEq] at h; subst h
    exact ⟨rfl, by simp [Kinds], fun _ => rfl⟩
  | .var v, _, caps, te, h, _ => by
    simp only [annotate, Except.ok.injEq] at h; subst h
    exact ⟨rfl, by simp [Kinds], fun _ => rfl⟩
  | .slot sid, _, caps, te, h, _ => by
    simp only [annotate, Except.ok.injEq] at h; subst h
    exact ⟨rfl, by simp [Kinds], fun _ => rfl⟩
  | .unknown _ _, _, caps, te, h, _ => by simp [annotate] at h
  | .ite c t e, hf, caps, te, h, hc => by
    simp only [InFragmentM, Bool.and_eq_true] at hf
    obtain ⟨⟨⟨hfc, hft⟩, hfe⟩, _⟩ := hf
    have hact : w.q.action = env.action := henv.2.1.symm
    simp only [annotate] at h
    cases htc : typeOf m s env c caps with
    | error err => simp [htc] at h
    | ok pc =>
      obtain ⟨τc, cc⟩ := pc
      cases hac : annotate m s env c caps with
      | error err => simp [htc, hac] at h
      | ok tc =>
        simp only [htc, hac] at h
        have rc : Res n env w tc c := annot_res hWF henv hs c hfc caps tc hac hc
        obtain ⟨_, gc⟩ := good_of hWF henv hs hfc htc hc
        split at h
        · rename_i htrue
          have := isTrue_eq htrue; subst this
          cases hat : annotate m s env t (caps.union cc) with
          | error err => simp [hat] at h
          | ok tt =>
            simp only [hat, Except.ok.injEq] at h; subst h
            obtain ⟨hcv, hcc⟩ := tt_cases gc
            have rt : Res n env w tt t := annot_res hWF henv hs t hft _ tt hat (capsHold_union.mpr ⟨hc, hcc⟩)
            refine ⟨?_, ?_, fun hok => ?_⟩
            · simp only [TExpr.erase]
              exact eval_ite_congr rc.faithful (fun _ => rt.faithful) (fun hff => (not_false_of hcv hff).elim)
            · simp only [Kinds]; exact ⟨rc.kinds, fun _ => rt.kinds, fun _ => rt.kinds⟩
            · obtain ⟨okc, okt, _⟩ := hok.ite
              simp only [TExpr.erase]
              refine eval_ite_congr (rc.slice okc) (fun _ => rt.slice okt) (fun hff => ?_)
              rw [rc.sliceStore hact okc] at hff
              exact (not_false_of hcv hff).elim
        · split at h
          · rename_i hfalse
            have := isFalse_eq hfalse; subst this
            cases hae : annotate m s env e caps with
            | error err => simp [hae] at h
            | ok te' =>
              simp only [hae, Except.ok.injEq] at h; subst h
              have hcv := ff_cases gc
              have re : Res n env w te' e := annot_res hWF henv hs e hfe _ te' hae hc
              refine ⟨?_, ?_, fun hok => ?_⟩
              · simp only [TExpr.erase]
                exact eval_ite_congr rc.faithful (fun htt => (not_true_of hcv htt).elim) (fun _ => re.faithful)
              · simp only [Kinds]; exact ⟨rc.kinds, fun _ => re.kinds, fun _ => re.kinds⟩
              · obtain ⟨okc, oke, _⟩ := hok.ite
                simp only [TExpr.erase]
                refine eval_ite_congr (rc.slice okc) (fun htt => ?_) (fun _ => re.slice oke)
                rw [rc.sliceStore hact okc] at htt
                exact (not_true_of hcv htt).elim
          · cases hat : annotate m s env t (caps.union cc) with
            | error err => simp [hat] at h
            | ok tt =>
              cases hae : annotate m s env e caps with
              | error err => simp [hat, hae] at h
              | ok te' =>
                simp only [hat, hae, Except.ok.injEq] at h; subst h
                have rt : evaluate w.q w.es w.sl c = .ok (.prim (.bool true)) → Res n env w tt t := fun htt =>
                  annot_res hWF henv hs t hft _ tt hat (capsHold_union.mpr ⟨hc, caps_of_true gc htt⟩)
                have re : Res n env w te' e := annot_res hWF henv hs e hfe _ te' hae hc
                refine ⟨?_, ?_, fun hok => ?_⟩
                · simp only [TExpr.erase]
                  exact eval_ite_congr rc.faithful (fun htt => (rt htt).faithful) (fun _ => re.faithful)
                · simp only [Kinds]
                  exact ⟨rc.kinds, fun htt => (rt (by rw [← rc.faithful]; exact htt)).kinds, fun _ => re.kinds⟩
                · obtain ⟨okc, okt, oke⟩ := hok.ite
                  simp only [TExpr.erase]
                  refine eval_ite_congr (rc.slice okc) (fun htt => ?_) (fun _ => re.slice oke)
                  rw [rc.sliceStore hact okc] at htt
                  exact (rt htt).slice okt
  | .and a b, hf, caps, te, h, hc => by
    simp only [InFragmentM, Bool.and_eq_true] at hf
    have hact : w.q.action = env.action := henv.2.1.symm
    simp only [annotate] at h
    cases hta : typeOf m s env a caps with
    | error err => simp [hta] at h
    | ok pa =>
      obtain ⟨τa, ca⟩ := pa
      cases haa : annotate m s env a caps with
      | error err => simp [hta, haa] at h
      | ok ta =>
        simp only [hta, haa] at h
        have ra : Res n env w ta a := annot_res hWF henv hs a hf.1 caps ta haa hc
        obtain ⟨_, ga⟩ := good_of hWF henv hs hf.1 hta hc
        split at h
        · rename_i hfalse
          have := isFalse_eq hfalse; subst this
          simp only [Except.ok.injEq] at h; subst h
          have hav := ff_cases ga
          refine ⟨?_, ra.kinds, fun hok => ?_⟩
          · rw [ra.faithful, eval_and_left hav]
          · rw [ra.slice hok, eval_and_left (by rw [ra.sliceStore hact hok]; exact hav)]
        · cases hab : annotate m s env b (caps.union ca) with
          | error err => simp [hab] at h
          | ok tb =>
            simp only [hab, Except.ok.injEq] at h; subst h
            have rb : evaluate w.q w.es w.sl a = .ok (.prim (.bool true)) → Res n env w tb b := fun htt =>
              annot_res hWF henv hs b hf.2 _ tb hab (capsHold_union.mpr ⟨hc, caps_of_true ga htt⟩)
            refine ⟨?_, ?_, fun hok => ?_⟩
            · simp only [TExpr.erase]
              exact eval_and_congr ra.faithful (fun htt => (rb htt).faithful)
            · simp only [Kinds]
              exact ⟨ra.kinds, fun htt => (rb (by rw [← ra.faithful]; exact htt)).kinds⟩
            · obtain ⟨oka, okb⟩ := hok.and
              simp only [TExpr.erase]
              refine eval_and_congr (ra.slice oka) (fun htt => ?_)
              rw [ra.sliceStore hact oka] at htt
              exact (rb htt).slice okb
  | .or a b, hf, caps, te, h, hc => by
    simp only [InFragmentM, Bool.and_eq_true] at hf
    have hact : w.q.action = env.action := henv.2.1.symm
    simp only [annotate] at h
    cases hta : typeOf m s env a caps with
    | error err => simp [hta] at h
    | ok pa =>
      obtain ⟨τa, ca⟩ := pa
      cases haa : annotate m s env a caps with
      | error err => simp [hta, haa] at h
      | ok ta =>
        simp only [hta, haa] at h
        have ra : Res n env w ta a := annot_res hWF henv hs a hf.1 caps ta haa hc
        obtain ⟨_, ga⟩ := good_of hWF henv hs hf.1 hta hc
        split at h
        · rename_i htrue
          have := isTrue_eq htrue; subst this
          simp only [Except.ok.injEq] at h; subst h
          have hav := (tt_cases ga).1
          refine ⟨?_, ra.kinds, fun hok => ?_⟩
          · rw [ra.faithful, eval_or_left hav]
          · rw [ra.slice hok, eval_or_left (by rw [ra.sliceStore hact hok]; exact hav)]
        · cases hab : annotate m s env b caps with
          | error err => simp [hab] at h
          | ok tb =>
            simp only [hab, Except.ok.injEq] at h; subst h
            have rb : Res n env w tb b := annot_res hWF henv hs b hf.2 _ tb hab hc
            refine ⟨?_, ?_, fun hok => ?_⟩
            · simp only [TExpr.erase]
              exact eval_or_congr ra.faithful (fun _ => rb.faithful)
            · simp only [Kinds]
              exact ⟨ra.kinds, fun _ => rb.kinds⟩
            · obtain ⟨oka, okb⟩ := hok.or
              simp only [TExpr.erase]
              exact eval_or_congr (ra.slice oka) (fun _ => rb.slice okb)
  | .unaryApp op a, hf, caps, te, h, hc => by
    simp only [InFragmentM] at hf
    simp only [annotate] at h
    cases haa : annotate m s env a caps with
    | error err => simp [haa] at h
    | ok ta =>
      simp only [haa, Except.ok.injEq] at h; subst h
      have ra : Res n env w ta a := annot_res hWF henv hs a hf caps ta haa hc
      refine ⟨?_, ?_, fun hok => ?_⟩
      · simp only [TExpr.erase, evaluate, ra.faithful]
      · simp only [Kinds]; exact ra.kinds
      · simp only [TExpr.erase, evaluate, ra.slice hok.unary]
  | .binaryApp op a b, hf, caps, te, h, hc => by
    simp only [InFragmentM, Bool.and_eq_true] at hf
    simp only [annotate] at h
    cases haa : annotate m s env a caps with
    | error err => simp [haa] at h
    | ok ta =>
      cases hab : annotate m s env b caps with
      | error err => simp [haa, hab] at h
      | ok tb =>
        simp only [haa, hab, Except.ok.injEq] at h; subst h
        have ra : Res n env w ta a := annot_res hWF henv hs a hf.1.2 caps ta haa hc
        have rb : Res n env w tb b := annot_res hWF henv hs b hf.2 caps tb hab hc
        refine ⟨?_, ?_, fun hok => ?_⟩
        · simp only [TExpr.erase, evaluate, ra.faithful, rb.faithful]
        · simp only [Kinds]; exact ⟨ra.kinds, rb.kinds⟩
        · simp only [TExpr.erase, evaluate, ra.slice hok.binary.1, rb.slice hok.binary.2]
  | .call fn args, hf, caps, te, h, hc => by
    simp only [InFragmentM] at hf
    simp only [annotate] at h
    cases hl : annotateList m s env args caps with
    | error err => simp [hl] at h
    | ok ts =>
      simp only [hl, Except.ok.injEq] at h; subst h
      have r : ResList n env w ts args := annot_resList hWF henv hs args hf caps ts hl hc
      refine ⟨?_, ?_, fun hok => ?_⟩
      · simp only [TExpr.erase, evaluate, r.faithful]
      · simp only [Kinds]; exact r.kinds
      · simp only [TExpr.erase, evaluate, r.slice hok.call]
  | .getAttr e a, hf, caps, te, h, hc => by
    simp only [InFragmentM] at hf
    simp only [annotate] at h
    cases hte : typeOf m s env e caps with
    | error err => simp [hte] at h
    | ok pe =>
      obtain ⟨τ, ce⟩ := pe
      cases hae : annotate m s env e caps with
      | error err => simp [hte, hae] at h
      | ok te' =>
        simp only [hte, hae, Except.ok.injEq] at h; subst h
        have re : Res n env w te' e := annot_res hWF henv hs e hf caps te' hae hc
        obtain ⟨hm, ge⟩ := good_of hWF henv hs hf hte hc
        refine ⟨?_, ?_, fun hok => ?_⟩
        · simp only [TExpr.erase, evaluate, re.faithful]
        · simp only [Kinds]
          exact ⟨re.kinds, fun v hv => kind_matches hm ge (by rw [← re.faithful]; exact hv)⟩
        · simp only [TExpr.erase, evaluate, re.slice hok.getAttr]
  | .hasAttr e a, hf, caps, te, h, hc => by
    simp only [InFragmentM] at hf
    simp only [annotate] at h
    cases hte : typeOf m s env e caps with
    | error err => simp [hte] at h
    | ok pe =>
      obtain ⟨τ, ce⟩ := pe
      cases hae : annotate m s env e caps with
      | error err => simp [hte, hae] at h
      | ok te' =>
        simp only [hte, hae, Except.ok.injEq] at h; subst h
        have re : Res n env w te' e := annot_res hWF henv hs e hf caps te' hae hc
        obtain ⟨hm, ge⟩ := good_of hWF henv hs hf hte hc
        refine ⟨?_, ?_, fun hok => ?_⟩
        · simp only [TExpr.erase, evaluate, re.faithful]
        · simp only [Kinds]
          exact ⟨re.kinds, fun v hv => kind_matches hm ge (by rw [← re.faithful]; exact hv)⟩
        · simp only [TExpr.erase, evaluate, re.slice hok.hasAttr]
  | .like e p, hf, caps, te, h, hc => by
    simp only [InFragmentM] at hf
    simp only [annotate] at h
    cases hae : annotate m s env e caps with
    | error err => simp [hae] at h
    | ok te' =>
      simp only [hae, Except.ok.injEq] at h; subst h
      have re : Res n env w te' e := annot_res hWF henv hs e hf caps te' hae hc
      refine ⟨?_, ?_, fun hok => ?_⟩
      · simp only [TExpr.erase, evaluate, re.faithful]
      · simp only [Kinds]; exact re.kinds
      · simp only [TExpr.erase, evaluate, re.slice hok.like]
  | .is e ty, hf, caps, te, h, hc => by
    simp only [InFragmentM] at hf
    simp only [annotate] at h
    cases hae : annotate m s env e caps with
    | error err => simp [hae] at h
    | ok te' =>
      simp only [hae, Except.ok.injEq] at h; subst h
      have re : Res n env w te' e := annot_res hWF henv hs e hf caps te' hae hc
      refine ⟨?_, ?_, fun hok => ?_⟩
      · simp only [TExpr.erase, evaluate, re.faithful]
      · simp only [Kinds]; exact re.kinds
      · simp only [TExpr.erase, evaluate, re.slice hok.is]
  | .set xs, hf, caps, te, h, hc => by
    simp only [InFragmentM, Bool.and_eq_true] at hf
    simp only [annotate] at h
    cases hl : annotateList m s env xs caps with
    | error err => simp [hl] at h
    | ok ts =>
      simp only [hl, Except.ok.injEq] at h; subst h
      have r : ResList n env w ts xs := annot_resList hWF henv hs xs hf.1 caps ts hl hc
      refine ⟨?_, ?_, fun hok => ?_⟩
      · simp only [TExpr.erase, evaluate, r.faithful]
      · simp only [Kinds]; exact r.kinds
      · simp only [TExpr.erase, evaluate, r.slice hok.set]
  | .record kvs, hf, caps, te, h, hc => by
    simp only [InFragmentM, Bool.and_eq_true] at hf
    simp only [annotate] at h
    cases hl : annotateKVs m s env kvs caps with
    | error err => simp [hl] at h
    | ok ts =>
      simp only [hl, Except.ok.injEq] at h; subst h
      have r : ResKVs n env w ts kvs := annot_resKVs hWF henv hs kvs hf.1 caps ts hl hc
      refine ⟨?_, ?_, fun hok => ?_⟩
      · simp only [TExpr.erase, evaluate, r.faithful]
      · simp only [Kinds]; exact r.kinds
      · simp only [TExpr.erase, evaluate, r.slice hok.record]
theorem annot_resList (hWF : SchemaWF2 s) (henv : EnvMatches s env w.q) (hs : Sem s env w) :
    ∀ (es : List Expr), InFragmentMList m env es = true → ∀ (caps : Capabilities) (ts : List TExpr),
      annotateList m s env es caps = .ok ts → CapsHold w caps → ResList n env w ts es
  | [], _, caps, ts, h, _ => by
    simp only [annotateList, Except.ok.injEq] at h; subst h
    exact ⟨rfl, by simp [KindsList], fun _ => rfl⟩
  | e :: es, hf, caps, ts, h, hc => by
    simp only [InFragmentMList, Bool.and_eq_true] at hf
    simp only [annotateList] at h
    cases h1 : annotate m s env e caps with
    | error err => simp [h1] at h
    | ok t =>
      cases h2 : annotateList m s env es caps with
      | error err => simp [h1, h2] at h
      | ok ts' =>
        simp only [h1, h2, Except.ok.injEq] at h; subst h
        have r1 : Res n env w t e := annot_res hWF henv hs e hf.1 caps t h1 hc
        have r2 : ResList n env w ts' es := annot_resList hWF henv hs es hf.2 caps ts' h2 hc
        refine ⟨?_, ?_, fun hok => ?_⟩
        · simp only [eraseList, evaluateList, r1.faithful, r2.faithful]
        · simp only [KindsList]; exact ⟨r1.kinds, r2.kinds⟩
        · simp only [eraseList, evaluateList, r1.slice hok.cons.1, r2.slice hok.cons.2]
theorem annot_resKVs (hWF : SchemaWF2 s) (henv : EnvMatches s env w.q) (hs : Sem s env w) :
    ∀ (es : List (String × Expr)), InFragmentMKVs m env es = true → ∀ (caps : Capabilities) (ts : List (String × TExpr)),
      annotateKVs m s env es caps = .ok ts → CapsHold w caps → ResKVs n env w ts es
  | [], _, caps, ts, h, _ => by
    simp only [annotateKVs, Except.ok.injEq] at h; subst h
    exact ⟨rfl, by simp [KindsKVs], fun _ => rfl⟩
  | (k, e) :: es, hf, caps, ts, h, hc => by
    simp only [InFragmentMKVs, Bool.and_eq_true] at hf
    simp only [annotateKVs] at h
    cases h1 : annotate m s env e caps with
    | error err => simp [h1] at h
    | ok t =>
      cases h2 : annotateKVs m s env es caps with
      | error err => simp [h1, h2] at h
      | ok ts' =>
        simp only [h1, h2, Except.ok.injEq] at h; subst h
        have r1 : Res n env w t e := annot_res hWF henv hs e hf.1 caps t h1 hc
        have r2 : ResKVs n env w ts' es := annot_resKVs hWF henv hs es hf.2 caps ts' h2 hc
        refine ⟨?_, ?_, fun hok => ?_⟩
        · simp only [eraseKVs, evaluateKVs, r1.faithful, r2.faithful]
        · simp only [KindsKVs]; exact ⟨r1.kinds, r2.kinds⟩
        · simp only [eraseKVs, evaluateKVs, r1.slice hok.cons.1, r2.slice hok.cons.2]
end

end Cedar.Level
