import CedarVerif.Lemmas.TypecheckSound
/-
C03: subtyping is sound for `InstanceOfType` (both modes): a value of a subtype is a value of the supertype.
-/
namespace Cedar.C03

open Cedar

theorem find_none_iff {attrs : Attrs} {k : String} : Attrs.find? attrs k = none ↔ k ∉ attrs.map (·.1) := by
  induction attrs with
  | nil => simp [Attrs.find?]
  | cons a rest ih =>
    obtain ⟨k', qt⟩ := a
    simp only [Attrs.find?, List.map_cons, List.mem_cons, not_or]
    by_cases hk : k' = k
    · subst hk; simp
    · have : (k' == k) = false := by simpa using hk
      rw [this]; simp only [Bool.false_eq_true, if_false]
      rw [ih]
      constructor
      · intro h; exact ⟨fun h' => hk h'.symm, h⟩
      · intro h; exact h.2

theorem sameKeys_find_none {a0 a1 : Attrs} {k : String} (hs : sameKeys a0 a1 = true) :
    Attrs.find? a0 k = none ↔ Attrs.find? a1 k = none := by
  unfold sameKeys at hs
  simp only [beq_iff_eq] at hs
  rw [find_none_iff, find_none_iff, hs]

/-- what `Attributes::is_subtype` gives for one attribute of the supertype -/
theorem attrsSubtype_mem {m : ValidationMode} {a0 : Attrs} : ∀ {a1 : Attrs}, attrsSubtype m a0 a1 = true →
    ∀ k r1 t1, (k, r1, t1) ∈ a1 → ∃ r0 t0, Attrs.find? a0 k = some (r0, t0) ∧ (r1 = true → r0 = true) ∧ isSubtype m t0 t1 = true
  | [], _, k, r1, t1, hm => by cases hm
  | (k', r', t') :: rest, h, k, r1, t1, hm => by
    simp only [attrsSubtype, Bool.and_eq_true] at h
    rcases List.mem_cons.mp hm with heq | hm'
    · simp only [Prod.mk.injEq] at heq
      obtain ⟨rfl, rfl, rfl⟩ := heq
      cases hf : Attrs.find? a0 k with
      | none => rw [hf] at h; simp at h
      | some qt =>
        obtain ⟨r0, t0⟩ := qt
        rw [hf] at h
        simp only [Bool.and_eq_true] at h
        refine ⟨r0, t0, rfl, ?_, h.1.2⟩
        intro hr; subst hr
        have h1 := h.1.1
        cases m <;> simp [ValidationMode.isStrict] at h1 <;> exact h1
    · exact attrsSubtype_mem h.2 k r1 t1 hm'

theorem isSubtype_inst {m : ValidationMode} {v : Value} {a : CedarType} (hi : InstanceOfType v a) :
    ∀ b, isSubtype m a b = true → InstanceOfType v b := by
  induction hi with
  | anyBool x =>
    intro b hs
    cases b <;> simp [isSubtype] at hs
    rcases hs with rfl | rfl <;> exact .anyBool x
  | tt =>
    intro b hs
    cases b <;> simp [isSubtype] at hs
    rcases hs with rfl | rfl
    · exact .anyBool _
    · exact .tt
  | ff =>
    intro b hs
    cases b <;> simp [isSubtype] at hs
    rcases hs with rfl | rfl
    · exact .anyBool _
    · exact .ff
  | long i => intro b hs; cases b <;> simp [isSubtype] at hs; exact .long i
  | string i => intro b hs; cases b <;> simp [isSubtype] at hs; exact .string i
  | entity u lub hm =>
    intro b hs
    cases b <;> simp only [isSubtype, Bool.false_eq_true] at hs
    · rename_i l1
      refine .entity u l1 ?_
      cases m
      · simp only [ValidationMode.isStrict, if_true, beq_iff_eq] at hs; rw [← hs]; exact hm
      · simp only [ValidationMode.isStrict, Bool.false_eq_true, if_false, lubSubset, List.all_eq_true] at hs
        simpa using hs _ hm
    · exact .anyEntity u
  | anyEntity u => intro b hs; cases b <;> simp [isSubtype] at hs; exact .anyEntity u
  | ext x =>
    intro b hs
    cases b <;> simp [isSubtype] at hs
    subst hs; exact .ext x
  | anySet vs =>
    intro b hs
    cases b <;> (try simp only [isSubtype, Bool.false_eq_true] at hs)
    rename_i e
    cases e with
    | none => exact .anySet vs
    | some e1 => simp [isSubtype] at hs
  | set vs t _ ih =>
    intro b hs
    cases b <;> (try simp only [isSubtype, Bool.false_eq_true] at hs)
    rename_i e
    cases e with
    | none => exact .anySet vs
    | some e1 =>
      exact .set vs e1 (fun v hv => ih v hv e1 hs)
  | record kvs attrs o h1 h2 h3 ih =>
    intro b hs
    cases b <;> simp only [isSubtype, Bool.false_eq_true] at hs
    rename_i a1 o1
    simp only [Bool.and_eq_true, Bool.or_eq_true, Bool.not_eq_true'] at hs
    obtain ⟨hopen, hsub⟩ := hs
    have hattrs : attrsSubtype m attrs a1 = true := by
      rcases hsub with h | h
      · exact h.2
      · exact h.2
    refine .record kvs a1 o1 ?_ ?_ ?_
    · intro k v hkv r t hf
      obtain ⟨r0, t0, hf0, _, hst⟩ := attrsSubtype_mem hattrs k r t (find_mem hf)
      exact ih k v hkv r0 t0 hf0 t hst
    · intro k v hkv hf
      cases o1 with
      | true => rfl
      | false =>
        rcases hsub with h | h
        · simp at h
        · have := (sameKeys_find_none h.1).mpr hf
          have ho := h2 k v hkv this
          subst ho
          simp at hopen
    · intro k t hm
      obtain ⟨r0, t0, hf0, hr, _⟩ := attrsSubtype_mem hattrs k true t hm
      have := hr rfl
      subst this
      exact h3 k t0 (find_mem hf0)

end Cedar.C03
