import CedarVerif.Cedar.Json.Value
/-
C10: the decimal rendering of naturals (`decDigits`) is read back by the extension parsers' digit readers
(`spanDigits`, `natOfDigits`).
-/
namespace Cedar
namespace CJson
open Ext

theorem digitChar_props (k : Nat) (h : k < 10) :
    isDigit (digitChar k) = true ∧ digitVal (digitChar k) = k := by
  have : k = 0 ∨ k = 1 ∨ k = 2 ∨ k = 3 ∨ k = 4 ∨ k = 5 ∨ k = 6 ∨ k = 7 ∨ k = 8 ∨ k = 9 := by omega
  rcases this with rfl | rfl | rfl | rfl | rfl | rfl | rfl | rfl | rfl | rfl <;> decide

def dstep (acc : Nat) (c : Char) : Nat := acc * 10 + digitVal c

theorem natOfDigits_eq (ds : List Char) : natOfDigits ds = ds.foldl dstep 0 := rfl

/-- the digits produced by `decDigitsAux`, in front of the accumulator -/
theorem decDigitsAux_spec : ∀ (fuel n : Nat) (acc : List Char), n < fuel →
    ∃ D, decDigitsAux fuel n acc = D ++ acc ∧ D ≠ [] ∧ (∀ c, c ∈ D → isDigit c = true) ∧
      ∀ a, D.foldl dstep a = a * 10 ^ D.length + n
  | 0, n, acc, h => by omega
  | fuel + 1, n, acc, h => by
    simp only [decDigitsAux]
    have hd := digitChar_props (n % 10) (Nat.mod_lt _ (by omega))
    split
    · rename_i h0
      refine ⟨[digitChar (n % 10)], rfl, by simp, ?_, ?_⟩
      · intro c hc; simp at hc; subst hc; exact hd.1
      · intro a
        simp only [List.foldl_cons, List.foldl_nil, dstep, hd.2, List.length_singleton, Nat.pow_one]
        have : n % 10 = n := by omega
        omega
    · rename_i h0
      have hlt : n / 10 < fuel := by omega
      obtain ⟨D, hD, hne, hdig, hval⟩ := decDigitsAux_spec fuel (n / 10) (digitChar (n % 10) :: acc) hlt
      refine ⟨D ++ [digitChar (n % 10)], by simp [hD], by simp, ?_, ?_⟩
      · intro c hc
        rcases List.mem_append.mp hc with hc | hc
        · exact hdig c hc
        · simp at hc; subst hc; exact hd.1
      · intro a
        simp only [List.foldl_append, hval, List.foldl_cons, List.foldl_nil, dstep, hd.2, List.length_append,
          List.length_singleton, Nat.pow_succ]
        have := Nat.div_add_mod n 10
        generalize 10 ^ D.length = P at *
        have e : (a * P + n / 10) * 10 = a * (P * 10) + (n / 10) * 10 := by
          rw [Nat.add_mul, Nat.mul_assoc]
        omega

theorem decDigits_spec (n : Nat) :
    decDigits n ≠ [] ∧ (∀ c, c ∈ decDigits n → isDigit c = true) ∧ natOfDigits (decDigits n) = n := by
  obtain ⟨D, hD, hne, hdig, hval⟩ := decDigitsAux_spec (n + 1) n [] (by omega)
  have : decDigits n = D := by simp [decDigits, hD]
  rw [this]
  refine ⟨hne, hdig, ?_⟩
  rw [natOfDigits_eq, hval 0]; omega

theorem spanDigits_append (D rest : List Char) (hd : ∀ c, c ∈ D → isDigit c = true)
    (hr : ∀ c r, rest = c :: r → isDigit c = false) : spanDigits (D ++ rest) = (D, rest) := by
  induction D with
  | nil =>
    cases rest with
    | nil => rfl
    | cons c r => simp [spanDigits, hr c r rfl]
  | cons d D ih =>
    have h1 : isDigit d = true := hd d (List.mem_cons_self ..)
    have := ih (fun c hc => hd c (List.mem_cons_of_mem _ hc))
    simp [spanDigits, h1, this]

end CJson
end Cedar
