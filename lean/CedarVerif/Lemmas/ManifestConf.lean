import CedarVerif.Lemmas.ManifestTyped
import CedarVerif.Lemmas.TypecheckSIP2
/-
C17 helper lemmas, part 10: THE LINK TO C11.  `ConfRoots` — conformance of the data to the schema as far as a trie looks —
holds for EVERY trie as soon as request and store conform to the schema in the sense of C11 / C03 (`ConformsRequest`,
`StoreConforms`: Cedar/Validation/Conformance.lean, characterised by the executable checkers in Thm/C11.lean), for a
schema whose declared record types are closed with distinct keys (`SchemaWF3`) and whose entity types have no open
attribute records (`SchemaClosed`; both hold of every schema Rust constructs without partial-schema support).
-/
namespace Cedar.Manifest
open Cedar Cedar.C03

/-- `SchemaWF3` plus: no entity type has an open attributes record (`open_attributes()` is `ClosedAttributes` for every
schema constructed without partial-schema support) -/
structure SchemaClosed (s : Schema) : Prop extends SchemaWF3 s where
  et_closed : ∀ T et, s.entityType? T = some et → et.isOpen = false

theorem confF_nil_data (s : Schema) (rt : ReqType) (es : Entities) (req : Request) (attrs : Attrs) :
    ∀ (c : Fields), ConfF s rt es req c attrs []
  | [] => by simp [ConfF]
  | (f, t) :: rest => by
    simp only [ConfF]
    exact ⟨fun w hw => by simp [lookupKV] at hw, confF_nil_data s rt es req attrs rest⟩

theorem euidLiteralType_some {s : Schema} {u : EntityUID} {ty : CedarType}
    (h : Manifest.euidLiteralType s u = some ty) : ty = .entity [u.ty] := by
  unfold Manifest.euidLiteralType at h
  split at h
  · split at h
    · simp only [Option.some.injEq] at h; exact h.symm
    · cases h
  · split at h
    · simp only [Option.some.injEq] at h; exact h.symm
    · cases h

theorem inst_entity_ty {v : Value} {lub : List EntityType} (h : InstanceOfType v (.entity lub)) :
    ∃ u, v = .prim (.entityUID u) ∧ u.ty ∈ lub := by
  cases h with
  | entity u _ hm => exact ⟨u, rfl, hm⟩

section
variable {s : Schema} {rt : ReqType} {es : Entities} {req : Request}
variable (hWF : SchemaClosed s) (hst : StoreConforms s es) (hreq : ConformsRequest s req)
variable (hp : req.principal.ty = rt.principal) (ha : req.action = rt.action) (hr : req.resource.ty = rt.resource)
include hWF hst hreq hp ha hr

set_option linter.unusedSectionVars false in
mutual
/-- a value of a (closed, distinct-keys) type conforms to it as far as ANY trie looks -/
theorem confV_inst : ∀ (t : AccessTrie) (ty : CedarType) (v : Value), cn ty = true → InstanceOfType v ty →
    ConfV s rt es req t ty v
  | .mk c a i e, ty, v, hcn, hi => by
    simp only [ConfV]
    refine ⟨confRoots_all a, ?_, ?_⟩
    · cases hi <;> simp [isEntityTy]
    · intro attrs hattrs
      cases hi with
      | record kvs attrs' o h1 h2 h3 =>
        simp only [attrsOfType, Except.ok.injEq, Option.some.injEq] at hattrs
        subst hattrs
        simp only [cn, Bool.and_eq_true, Bool.not_eq_true', decide_eq_true_eq] at hcn
        obtain ⟨⟨ho, hca⟩, _⟩ := hcn
        subst ho
        simp only
        refine confF_inst c attrs' kvs ?_
        intro k w hw
        have hm := lookupKV_mem kvs k w hw
        cases hf : Attrs.find? attrs' k with
        | none => exact absurd (h2 k w hm hf) (by simp)
        | some qt =>
          obtain ⟨q, τ⟩ := qt
          exact ⟨q, τ, rfl, cn_find hca hf, h1 k w hm q τ hf⟩
      | entity u lub hmem =>
        simp only
        intro d hd
        have hce := hst u d hd
        unfold ConformsEntity at hce
        -- `attrsOfType` answers only for singleton lubs
        cases lub with
        | nil => simp at hmem
        | cons ety tl =>
          cases tl with
          | cons _ _ => simp [attrsOfType] at hattrs
          | nil =>
            simp only [List.mem_singleton] at hmem
            simp only [attrsOfType] at hattrs
            by_cases hact : isActionType ety = true
            · simp only [hact, if_true, Except.ok.injEq, Option.some.injEq] at hattrs
              subst hattrs
              rw [hmem, if_pos hact] at hce
              obtain ⟨act, hact', hbeq, _⟩ := hce
              rw [(hWF.act_wf _ _ hact').2] at hbeq
              cases hda : d.attrs with
              | nil => exact confF_nil_data s rt es req [] c
              | cons kv rest => rw [hda] at hbeq; simp [Value.beqKVs] at hbeq
            · simp only [hact, Bool.false_eq_true, if_false] at hattrs
              cases het : s.entityType? ety with
              | none => simp [het] at hattrs
              | some et =>
                simp only [het, Except.ok.injEq, Option.some.injEq] at hattrs
                subst hattrs
                rw [hmem, if_neg hact] at hce
                obtain ⟨et', het', _, _, htyped, hopen, _⟩ := hce
                rw [het] at het'
                cases het'
                refine confF_inst c et.attrs d.attrs ?_
                intro k w hw
                have hm := lookupKV_mem d.attrs k w hw
                cases hf : Attrs.find? et.attrs k with
                | none =>
                  have := hopen k w hm hf
                  rw [hWF.et_closed _ _ het] at this
                  cases this
                | some qt =>
                  obtain ⟨q, τ⟩ := qt
                  exact ⟨q, τ, rfl, cn_find (hWF.et_cn _ _ het).1 hf, htyped k w hm q τ hf⟩
      | anyEntity u => simp [attrsOfType] at hattrs
      | anyBool b => trivial
      | tt => trivial
      | ff => trivial
      | long n => trivial
      | string x => trivial
      | ext x => trivial
      | anySet vs => trivial
      | set vs t' h => trivial
theorem confF_inst : ∀ (c : Fields) (attrs : Attrs) (kvs : List (String × Value)),
    (∀ k w, lookupKV kvs k = some w → ∃ q τ, Attrs.find? attrs k = some (q, τ) ∧ cn τ = true ∧ InstanceOfType w τ) →
    ConfF s rt es req c attrs kvs
  | [], _, _, _ => by simp [ConfF]
  | (f, t) :: rest, attrs, kvs, h => by
    simp only [ConfF]
    refine ⟨?_, confF_inst rest attrs kvs h⟩
    intro w hw
    obtain ⟨q, τ, h1, h2, h3⟩ := h f w hw
    exact ⟨q, τ, h1, confV_inst t τ w h2 h3⟩
/-- C11 ⇒ `ConfRoots`, for every trie -/
theorem confRoots_all : ∀ (g : RootAccessTrie), ConfRoots s rt es req g
  | [] => by simp [ConfRoots]
  | (root, t) :: rest => by
    simp only [ConfRoots]
    refine ⟨?_, confRoots_all rest⟩
    intro ty hty
    cases root with
    | literal u =>
      simp only [rootType] at hty
      cases hl : Manifest.euidLiteralType s u with
      | none => simp [hl] at hty
      | some ty' =>
        simp only [hl, Except.ok.injEq] at hty
        subst hty
        rw [euidLiteralType_some hl]
        exact confV_inst t _ _ rfl (.entity u _ (by simp))
    | var x =>
      cases x with
      | principal =>
        simp only [rootType, Except.ok.injEq] at hty
        subst hty
        exact confV_inst t _ _ rfl (.entity req.principal _ (by simp [hp]))
      | resource =>
        simp only [rootType, Except.ok.injEq] at hty
        subst hty
        exact confV_inst t _ _ rfl (.entity req.resource _ (by simp [hr]))
      | action =>
        simp only [rootType] at hty
        cases hl : Manifest.euidLiteralType s rt.action with
        | none => simp [hl] at hty
        | some ty' =>
          simp only [hl, Except.ok.injEq] at hty
          subst hty
          rw [euidLiteralType_some hl]
          exact confV_inst t _ _ rfl (.entity req.action _ (by simp [ha]))
      | context =>
        simp only [rootType] at hty
        cases hact : s.action? rt.action with
        | none => simp [hact] at hty
        | some act =>
          simp only [hact, Except.ok.injEq] at hty
          subst hty
          obtain ⟨_, _, _, _, _, ⟨act', hact', _, hinst⟩⟩ := hreq
          rw [ha, hact] at hact'
          cases hact'
          exact confV_inst t _ _ (hWF.act_cn _ _ hact) hinst
end

end

end Cedar.Manifest
