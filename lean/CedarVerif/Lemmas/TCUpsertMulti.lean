import CedarVerif.Lemmas.TCAccept
/-
Lemmas for C04, part 9: the second loop of `upsert_entities` (`upsertApply`) for batches of ANY length whose
uids are PAIRWISE DISTINCT — which the repaired code guarantees by deduping the collection first (TCDedup.lean).
(With a repeated uid the loop leaves stale ancestors — the defect of the code before /repo's fix, see
`upsert_multi_repeated_uid_counterexample` in Thm/C04.lean; the step `UInv.step_some` needs `u ∉ R` exactly
where the second overwrite of `u` would strip the *new* parents of `u` instead of its original ancestors.)
`UInv s0 R s`: relation between the original store `s0` (satisfying the invariant), the uids `R`
overwritten/inserted so far, and the intermediate store `s`.
-/
namespace Cedar.TC
set_option linter.unusedSectionVars false

variable {α : Type} [DecidableEq α]

structure UInv (s0 : Store α) (R : List α) (s : Store α) : Prop where
  /-- overwritten / inserted records carry no indirect ancestors -/
  k0 : ∀ x n, get s x = some n → x ∈ R → n.indirect = []
  k2 : ∀ x n0, get s0 x = some n0 → ∃ n, get s x = some n
  /-- the other records are original records with some indirect ancestors stripped -/
  a : ∀ x n, get s x = some n → x ∉ R → ∃ n0, get s0 x = some n0 ∧ n.parents = n0.parents ∧
        (∀ y, y ∈ n.indirect → y ∈ n0.indirect)
  /-- a record that lost an ancestor `v` lost everything above `v` -/
  d : ∀ x n n0, get s x = some n → x ∉ R → get s0 x = some n0 → ∀ v, v ∈ n0.out → v ∉ n.out →
        ∀ y, Reach (shape s0) v y → y ∉ n.indirect
  /-- what a record keeps, its kept (not overwritten) ancestors keep -/
  e : ∀ x n w nw, get s x = some n → x ∉ R → get s w = some nw → w ∉ R → w ∈ n.out →
        ∀ y, y ∈ n.indirect → Reach (shape s0) w y → y ∈ nw.out
  /-- nothing above an overwritten ancestor is kept -/
  p : ∀ x n, get s x = some n → x ∉ R → ∀ z, z ∈ n.out → z ∈ R → ∀ y, Reach (shape s0) z y → y ∉ n.indirect

theorem UInv.init (s0 : Store α) (h0 : StoreInv s0) : UInv s0 [] s0 := by
  refine ⟨fun x n _ h => (by cases h), fun x n0 h => ⟨n0, h⟩, ?_, ?_, ?_, fun x n _ _ z _ h => (by cases h)⟩
  · intro x n hx _; exact ⟨n, hx, rfl, fun y hy => hy⟩
  · intro x n n0 hx _ hx0 v hv hv'
    rw [hx] at hx0; cases hx0
    exact absurd hv hv'
  · intro x n w nw _ _ hw _ _ y _ hr
    exact (h0.exact w nw hw y).mpr hr

theorem UInv.out_sub {s0 s : Store α} {R : List α} (h : UInv s0 R s) {x : α} {n : Node α}
    (hx : get s x = some n) (hxR : x ∉ R) : ∃ n0, get s0 x = some n0 ∧ ∀ y, y ∈ n.out → y ∈ n0.out := by
  obtain ⟨n0, h0, hp, hi⟩ := h.a x n hx hxR
  refine ⟨n0, h0, ?_⟩
  intro y hy
  rcases mem_out.mp hy with hy | hy
  · exact mem_out.mpr (Or.inl (hp ▸ hy))
  · exact mem_out.mpr (Or.inr (hi y hy))

theorem upsNode_out_sub (u : α) (oa : List α) (x : α) (n : Node α) (hx : x ≠ u) :
    ∀ y, y ∈ (upsNode u oa x n).out → y ∈ n.out := by
  intro y hy
  rcases mem_out.mp hy with hy | hy
  · rw [upsNode_parents] at hy; exact mem_out.mpr (Or.inl hy)
  · exact mem_out.mpr (Or.inr ((mem_upsNode_indirect u oa x n hx y).mp hy).1)

/-- inserting a record for a uid that has none -/
theorem UInv.step_none {s0 s : Store α} {R t : List α} (h : UInv s0 R s) (e : α × Node α)
    (hpure : e.2.indirect = []) (hu : get s e.1 = none) :
    UInv s0 (e.1 :: R) (upsertOne (s, t) e).1 := by
  simp only [upsertOne, hu]
  have hu0 : get s0 e.1 = none := by
    cases hg : get s0 e.1 with
    | none => rfl
    | some n0 => obtain ⟨n, hn⟩ := h.k2 e.1 n0 hg; rw [hu] at hn; cases hn
  have G : ∀ x, x ≠ e.1 → get (s ++ [e]) x = get s x := by
    intro x hx
    rw [get_append_single]
    cases hg : get s x with
    | some n => rfl
    | none =>
      have hne : ¬ e.1 = x := fun h' => hx h'.symm
      simp [hne]
  have Gu : get (s ++ [e]) e.1 = some e.2 := by rw [get_append_single, hu]; simp
  have hnr : ∀ y, ¬ Reach (shape s0) e.1 y := fun y => Reach.of_none (by simp [shape, hu0])
  refine ⟨?_, ?_, ?_, ?_, ?_, ?_⟩
  · intro x n hx hxR
    by_cases hxu : x = e.1
    · subst hxu; rw [Gu] at hx; cases hx; exact hpure
    · simp only [List.mem_cons] at hxR
      rcases hxR with hxR | hxR
      · exact absurd hxR hxu
      · rw [G x hxu] at hx; exact h.k0 x n hx hxR
  · intro x n0 hx0
    have hxu : x ≠ e.1 := fun e' => by rw [e', hu0] at hx0; cases hx0
    rw [G x hxu]; exact h.k2 x n0 hx0
  · intro x n hx hxR
    simp only [List.mem_cons, not_or] at hxR
    rw [G x hxR.1] at hx
    exact h.a x n hx hxR.2
  · intro x n n0 hx hxR hx0 v hv hv' y hvy
    simp only [List.mem_cons, not_or] at hxR
    rw [G x hxR.1] at hx
    exact h.d x n n0 hx hxR.2 hx0 v hv hv' y hvy
  · intro x n w nw hx hxR hw hwR hwn y hy hwy
    simp only [List.mem_cons, not_or] at hxR hwR
    rw [G x hxR.1] at hx
    rw [G w hwR.1] at hw
    exact h.e x n w nw hx hxR.2 hw hwR.2 hwn y hy hwy
  · intro x n hx hxR z hz hzR y hzy
    simp only [List.mem_cons, not_or] at hxR
    rw [G x hxR.1] at hx
    simp only [List.mem_cons] at hzR
    rcases hzR with rfl | hzR
    · exact absurd hzy (hnr y)
    · exact h.p x n hx hxR.2 z hz hzR y hzy

/-- overwriting a record that has not been overwritten in this batch -/
theorem UInv.step_some {s0 s : Store α} {R t : List α} (h0 : StoreInv s0) (h : UInv s0 R s) (e : α × Node α)
    (hpure : e.2.indirect = []) (old : Node α) (hu : get s e.1 = some old) (huR : e.1 ∉ R) :
    UInv s0 (e.1 :: R) (upsertOne (s, t) e).1 := by
  rw [upsertOne_some hu]
  simp only
  generalize hs1 : set (s.map (fun kn => (kn.1, upsNode e.1 old.out kn.1 kn.2))) e.1 e.2 = s1
  have hm : ∀ x, get (s.map (fun kn => (kn.1, upsNode e.1 old.out kn.1 kn.2))) x =
      (get s x).map (upsNode e.1 old.out x) := get_map_node' s _ _ (fun _ => rfl)
  have G1 : get s1 e.1 = some e.2 := by
    rw [← hs1]
    exact get_set_self _ _ _ (upsNode e.1 old.out e.1 old) (by rw [hm, hu]; rfl)
  have G2 : ∀ x, x ≠ e.1 → get s1 x = (get s x).map (upsNode e.1 old.out x) := by
    intro x hx; rw [← hs1, get_set_other _ _ _ _ hx, hm]
  have back : ∀ x n', get s1 x = some n' → x ≠ e.1 → ∃ n, get s x = some n ∧ n' = upsNode e.1 old.out x n := by
    intro x n' hx hxu
    rw [G2 x hxu] at hx
    cases hg : get s x with
    | none => rw [hg] at hx; cases hx
    | some n => rw [hg] at hx; simp at hx; exact ⟨n, rfl, hx.symm⟩
  obtain ⟨old0, hold0, holdsub⟩ := h.out_sub hu huR
  have hrout : ∀ y, y ∈ old.out → Reach (shape s0) e.1 y :=
    fun y hy => (h0.exact e.1 old0 hold0 y).mp (holdsub y hy)
  refine ⟨?_, ?_, ?_, ?_, ?_, ?_⟩
  · -- k0
    intro x n' hx hxR
    by_cases hxu : x = e.1
    · subst hxu; rw [G1] at hx; cases hx; exact hpure
    · simp only [List.mem_cons] at hxR
      rcases hxR with hxR | hxR
      · exact absurd hxR hxu
      · obtain ⟨n, hn, rfl⟩ := back x n' hx hxu
        have hn0 := h.k0 x n hn hxR
        apply List.eq_nil_iff_forall_not_mem.mpr
        intro y hy
        have := ((mem_upsNode_indirect e.1 old.out x n hxu y).mp hy).1
        rw [hn0] at this; cases this
  · -- k2
    intro x n0 hx0
    by_cases hxu : x = e.1
    · subst hxu; exact ⟨_, G1⟩
    · obtain ⟨n, hn⟩ := h.k2 x n0 hx0
      exact ⟨upsNode e.1 old.out x n, by rw [G2 x hxu, hn]; rfl⟩
  · -- a
    intro x n' hx hxR
    simp only [List.mem_cons, not_or] at hxR
    obtain ⟨n, hn, rfl⟩ := back x n' hx hxR.1
    obtain ⟨n0, hn0, hp, hi⟩ := h.a x n hn hxR.2
    refine ⟨n0, hn0, by rw [upsNode_parents]; exact hp, ?_⟩
    intro y hy
    exact hi y ((mem_upsNode_indirect e.1 old.out x n hxR.1 y).mp hy).1
  · -- d
    intro x n' n0 hx hxR hx0 v hv hv' y hvy hy'
    simp only [List.mem_cons, not_or] at hxR
    obtain ⟨n, hn, rfl⟩ := back x n' hx hxR.1
    have hy := (mem_upsNode_indirect e.1 old.out x n hxR.1 y).mp hy'
    by_cases hvn : v ∈ n.out
    · -- v was kept so far and is lost now
      have hlost : e.1 ∈ n.out ∧ Reach (shape s0) e.1 y := by
        rcases mem_out.mp hvn with hvp | hvi
        · exact absurd (mem_out.mpr (Or.inl (by rw [upsNode_parents]; exact hvp))) hv'
        · have hnot : ¬ (e.1 ∈ n.out → v ≠ e.1 ∧ v ∉ old.out) := by
            intro hc
            exact hv' (mem_out.mpr (Or.inr ((mem_upsNode_indirect e.1 old.out x n hxR.1 v).mpr ⟨hvi, hc⟩)))
          have hun : e.1 ∈ n.out := Classical.byContradiction (fun hc => hnot (fun h' => absurd h' hc))
          refine ⟨hun, ?_⟩
          by_cases hvu : v = e.1
          · exact hvu ▸ hvy
          · have hvo : v ∈ old.out := Classical.byContradiction (fun hc => hnot (fun _ => ⟨hvu, hc⟩))
            exact (hrout v hvo).trans hvy
      have hyo := h.e x n e.1 old hn hxR.2 hu huR hlost.1 y hy.1 hlost.2
      exact (hy.2 hlost.1).2 hyo
    · exact h.d x n n0 hn hxR.2 hx0 v hv hvn y hvy hy.1
  · -- e
    intro x n' w nw' hx hxR hw hwR hwn y hy' hwy
    simp only [List.mem_cons, not_or] at hxR hwR
    obtain ⟨n, hn, rfl⟩ := back x n' hx hxR.1
    obtain ⟨nw, hnw, rfl⟩ := back w nw' hw hwR.1
    have hy := (mem_upsNode_indirect e.1 old.out x n hxR.1 y).mp hy'
    have hwn' := upsNode_out_sub e.1 old.out x n hxR.1 w hwn
    have hyw : y ∈ nw.out := h.e x n w nw hn hxR.2 hnw hwR.2 hwn' y hy.1 hwy
    rcases mem_out.mp hyw with hyp | hyind
    · exact mem_out.mpr (Or.inl (by rw [upsNode_parents]; exact hyp))
    · refine mem_out.mpr (Or.inr ((mem_upsNode_indirect e.1 old.out w nw hwR.1 y).mpr ⟨hyind, ?_⟩))
      intro huw
      by_cases hun : e.1 ∈ n.out
      · exact hy.2 hun
      · -- x lost u earlier: then it lost everything above u
        obtain ⟨n0, hn0, hsub⟩ := h.out_sub hn hxR.2
        obtain ⟨nw0, hnw0, hsubw⟩ := h.out_sub hnw hwR.2
        have hxw : Reach (shape s0) x w := (h0.exact x n0 hn0 w).mp (hsub w hwn')
        have hwu : Reach (shape s0) w e.1 := (h0.exact w nw0 hnw0 e.1).mp (hsubw e.1 huw)
        have hu0 : e.1 ∈ n0.out := (h0.exact x n0 hn0 e.1).mpr (hxw.trans hwu)
        have hd := h.d x n n0 hn hxR.2 hn0 e.1 hu0 hun
        refine ⟨?_, ?_⟩
        · intro hyu
          exact hun (mem_out.mpr (Or.inr (hyu ▸ hy.1)))
        · intro hyo
          exact hd y (hrout y hyo) hy.1
  · -- p
    intro x n' hx hxR z hz hzR y hzy hy'
    simp only [List.mem_cons, not_or] at hxR
    obtain ⟨n, hn, rfl⟩ := back x n' hx hxR.1
    have hy := (mem_upsNode_indirect e.1 old.out x n hxR.1 y).mp hy'
    have hzn := upsNode_out_sub e.1 old.out x n hxR.1 z hz
    simp only [List.mem_cons] at hzR
    rcases hzR with rfl | hzR
    · have hyo := h.e x n e.1 old hn hxR.2 hu huR hzn y hy.1 hzy
      exact (hy.2 hzn).2 hyo
    · exact h.p x n hn hxR.2 z hzn hzR y hzy hy.1

theorem UInv.fold {s0 : Store α} (h0 : StoreInv s0) : ∀ (es : List (α × Node α)) (s : Store α) (t R : List α),
    UInv s0 R s → PureBatch es → (es.map (·.1)).Nodup → (∀ e, e ∈ es → e.1 ∉ R) →
    ∃ R', UInv s0 R' (es.foldl upsertOne (s, t)).1 := by
  intro es
  induction es with
  | nil => intro s t R h _ _ _; exact ⟨R, h⟩
  | cons e es ih =>
    intro s t R h hp hnd hR
    simp only [List.foldl_cons]
    have hpe : e.2.indirect = [] := hp e List.mem_cons_self
    have hp' : PureBatch es := fun e' he' => hp e' (List.mem_cons_of_mem _ he')
    simp only [List.map_cons, List.nodup_cons] at hnd
    have hR' : ∀ e', e' ∈ es → e'.1 ∉ e.1 :: R := by
      intro e' he'
      simp only [List.mem_cons, not_or]
      refine ⟨?_, hR e' (List.mem_cons_of_mem _ he')⟩
      intro heq
      exact hnd.1 (heq ▸ List.mem_map_of_mem (f := (·.1)) he')
    have hstep : UInv s0 (e.1 :: R) (upsertOne (s, t) e).1 := by
      cases hu : get s e.1 with
      | none => exact h.step_none e hpe hu
      | some old => exact h.step_some h0 e hpe old hu (hR e List.mem_cons_self)
    have := ih (upsertOne (s, t) e).1 (upsertOne (s, t) e).2 (e.1 :: R) hstep hp' hnd.2 hR'
    exact this

/-- what the invariant gives at the end: justified edges and disjointness -/
theorem UInv.final {s0 s : Store α} {R : List α} (h0 : StoreInv s0) (h : UInv s0 R s) :
    Sound (shape s) s ∧ Disjoint s := by
  constructor
  · intro x n hx y hy
    rcases mem_out.mp hy with hyp | hyi
    · exact Reach.edge (shape_some hx) hyp
    · by_cases hxR : x ∈ R
      · rw [h.k0 x n hx hxR] at hyi; cases hyi
      · obtain ⟨n0, hn0, hsub⟩ := h.out_sub hx hxR
        -- a node that is not overwritten has its original parents
        have hshape : ∀ a ps, a ∉ R → shape s0 a = some ps → shape s a = some ps := by
          intro a ps haR hps
          obtain ⟨na0, hna0, hpa0⟩ := shape_some_inv hps
          obtain ⟨na, hna⟩ := h.k2 a na0 hna0
          obtain ⟨na0', hna0', hp, _⟩ := h.a a na hna haR
          rw [hna0] at hna0'; cases hna0'
          rw [shape_some hna, hp, hpa0]
        have hreach0 : ∀ a, (a = x ∨ (a ∈ n.out ∧ a ∉ R)) → ∀ ps b, shape s0 a = some ps → b ∈ ps →
            Reach (shape s0) x b := by
          intro a ha ps b hps hb
          rcases ha with rfl | ha
          · exact Reach.edge hps hb
          · exact ((h0.exact x n0 hn0 a).mp (hsub a ha.1)).trans (Reach.edge hps hb)
        have path : ∀ a b, Reach (shape s0) a b → b = y → (a = x ∨ (a ∈ n.out ∧ a ∉ R)) → Reach (shape s) a y := by
          intro a b hr
          induction hr with
          | @edge a' b' ps hps hb =>
            intro hby ha
            subst hby
            have haR : a' ∉ R := by rcases ha with rfl | ha; exact hxR; exact ha.2
            exact Reach.edge (hshape a' ps haR hps) hb
          | @step a' b' z ps hps hz hzb ih =>
            intro hby ha
            subst hby
            have haR : a' ∉ R := by rcases ha with rfl | ha; exact hxR; exact ha.2
            have hzn : z ∈ n.out := by
              apply Classical.byContradiction
              intro hzn
              have hz0 : z ∈ n0.out := (h0.exact x n0 hn0 z).mpr (hreach0 a' ha ps z hps hz)
              exact h.d x n n0 hx hxR hn0 z hz0 hzn b' hzb hyi
            have hzR : z ∉ R := fun hzR => h.p x n hx hxR z hzn hzR b' hzb hyi
            exact Reach.step (hshape a' ps haR hps) hz (ih rfl (Or.inr ⟨hzn, hzR⟩))
        have hxy0 : Reach (shape s0) x y := (h0.exact x n0 hn0 y).mp (hsub y hy)
        exact path x y hxy0 rfl (Or.inl rfl)
  · intro x n hx y hyp hyi
    by_cases hxR : x ∈ R
    · rw [h.k0 x n hx hxR] at hyi; cases hyi
    · obtain ⟨n0, hn0, hp, hi⟩ := h.a x n hx hxR
      exact h0.disjoint x n0 hn0 y (hp ▸ hyp) (hi y hyi)

/-! ### parent graph of the batch loop = spec (any batch) -/

theorem pg_upsertOne (st : Store α × List α) (e : α × Node α) :
    parentGraph (upsertOne st e).1 = match PGraph.get (parentGraph st.1) e.1 with
      | some _ => PGraph.set (parentGraph st.1) e.1 e.2.parents
      | none => parentGraph st.1 ++ [(e.1, e.2.parents)] := by
  obtain ⟨s, t⟩ := st
  cases hu : get s e.1 with
  | none =>
    have : PGraph.get (parentGraph s) e.1 = none := by rw [pg_get]; simp [shape, hu]
    simp only [upsertOne, hu, this]
    simp [parentGraph]
  | some old =>
    have hpg : PGraph.get (parentGraph s) e.1 = some old.parents := by rw [pg_get]; exact shape_some hu
    rw [upsertOne_some hu]
    simp only [hpg]
    rw [pg_set', pg_map_same]
    intro kn
    exact ⟨rfl, upsNode_parents _ _ _ _⟩

theorem pg_upsertFold (es : List (α × Node α)) : ∀ st : Store α × List α,
    parentGraph (es.foldl upsertOne st).1 = specUpsert (parentGraph st.1) es := by
  induction es with
  | nil => intro st; rfl
  | cons e es ih =>
    intro st
    simp only [List.foldl_cons, specUpsert]
    rw [ih, pg_upsertOne]
    cases PGraph.get (parentGraph st.1) e.1 <;> rfl

/-! ### `upsert_entities`, batches with pairwise distinct uids -/

/-- the store handed to `repair_tc` by `upsert_entities` for a batch with pairwise distinct uids -/
theorem upsert_distinct_pre (s : Store α) (es : List (α × Node α)) (hinv : StoreInv s) (hp : PureBatch es)
    (hnd : (es.map (·.1)).Nodup) :
    Sound (shape (es.foldl upsertOne (s, [])).1) (es.foldl upsertOne (s, [])).1 ∧
    Disjoint (es.foldl upsertOne (s, [])).1 := by
  obtain ⟨R', hR'⟩ := UInv.fold hinv es s [] [] (UInv.init s hinv) hp hnd (fun _ _ h => by cases h)
  exact hR'.final hinv

/-- `upsert_entities` (ComputeNow), batch of any length with pairwise distinct uids and no indirect
    ancestors, on a store satisfying the invariant: accepted iff the spec's parent graph is acyclic, then
    the invariant is re-established with the spec's parent graph; otherwise `cycle` -/
theorem upsertApply_distinct (s : Store α) (es : List (α × Node α)) (hinv : StoreInv s) (hp : PureBatch es)
    (hnd : (es.map (·.1)).Nodup) :
    ((∀ x, ¬ Reach (shape (es.foldl upsertOne (s, [])).1) x x) →
      ∃ s', upsertApply .compute s es = .ok s' ∧ StoreInv s' ∧
        parentGraph s' = specUpsert (parentGraph s) es) ∧
    (∀ err, upsertApply .compute s es = .error err →
      err = .cycle ∧ ∃ x, Reach (shape (es.foldl upsertOne (s, [])).1) x x) := by
  obtain ⟨p1, p3⟩ := upsert_distinct_pre s es hinv hp hnd
  have hf := upsertFold_frame es (s, []) (frame_init s)
  constructor
  · intro hacyc
    obtain ⟨s', hok, hinv', hpg⟩ := repair_establishes _ _ p1 hacyc (hf.untouched_complete hinv) p3
    refine ⟨s', ?_, hinv', by rw [hpg, pg_upsertFold]⟩
    unfold upsertApply
    simp only [finish, if_true]
    exact hok
  · intro err h
    unfold upsertApply at h
    simp only [finish, if_true] at h
    obtain ⟨r1, _, r3⟩ := repairTc_sound _ (touchPass (es.foldl upsertOne (s, [])).1 (es.foldl upsertOne (s, [])).2) _ p1
    have := r3 err h
    subst this
    exact ⟨rfl, r1 h⟩

end Cedar.TC
