import CedarVerif.Lemmas.LevelFaithful
import CedarVerif.Lemmas.TpeBridge
import CedarVerif.Lemmas.TpeDecision
/-
C14 / C15 bridge to C03: the typed expression the TPE model receives is `te.erase` for the typed AST `te = annotate e caps`
the typechecker hands back (Cedar/Validation/Level.lean; harness/src/c14.rs `typed_conditions` serialises
`typed.into_expr()`, Driver/Ops/Tpe.lean decodes it as `TPolicy.typed`).  For an expression the typechecker model TYPES
(`typeOf … = ok`) in a world that satisfies the C03 premises (`Sem`, `CapsHold`), this file proves by ONE induction over
`annotate` (re-running C03's induction with a per-node invariant; every node uses C03's `soundM` for the node itself):
  * `annot_typeSafe` — the residual `try_from_typed_expr` starts from is `TypeSafe` on the request / store: no evaluated node
    raises a type error (the shape conditions of `TypeSafe` are read off "the node evaluates to a value of its static type or
    fails with an entity / overflow / extension error", `Good`, and `Level.annot_res`'s faithfulness for the node).
-/
namespace Cedar.Tpe.Valid
open Cedar Cedar.Tpe Cedar.C03
open Cedar.Level (TExpr annotate annotateList annotateKVs eraseList eraseKVs)

variable {m : ValidationMode} {s : Schema} {env : RequestEnv} {w : World}

/-- a sound node never evaluates to a type error (`Permitted` = entity / overflow / extension) -/
theorem good_not_type {e : Expr} {τ : CedarType} {c : Capabilities} (g : Good w e τ c) : w.eval e ≠ .error .type := by
  rcases g.1 with ⟨err, he, hp⟩ | ⟨v, hv, _, _⟩
  · rw [he]
    rcases hp with rfl | rfl | rfl <;> simp
  · rw [hv]; simp

/-- whether a binary application is a type error does not depend on the store -/
theorem applyBinary_type_store (es : Entities) (op : BinaryOp) (v1 v2 : Value)
    (h : applyBinary [] op v1 v2 = .error .type) : applyBinary es op v1 v2 = .error .type := by
  cases op with
  | mem =>
    simp only [applyBinary, bind, Except.bind] at h ⊢
    cases h1 : v1.asEntity with
    | error e => rw [h1] at h; exact h
    | ok u =>
      rw [h1] at h
      simp only at h ⊢
      cases v2 with
      | prim p => cases p <;> simp_all
      | record kvs => rfl
      | ext x => rfl
      | set vs =>
        simp only at h ⊢
        cases hl : asEntityList vs with
        | error e => rw [hl] at h; exact h
        | ok us => rw [hl] at h; simp at h
  | getTag =>
    simp only [applyBinary, bind, Except.bind] at h ⊢
    cases h1 : v1.asEntity with
    | error e => rw [h1] at h; exact h
    | ok u =>
      rw [h1] at h
      simp only at h ⊢
      cases h2 : v2.asString with
      | error e => rw [h2] at h; exact h
      | ok t => rw [h2] at h; simp [Entities.find?] at h
  | hasTag =>
    simp only [applyBinary, bind, Except.bind] at h ⊢
    cases h1 : v1.asEntity with
    | error e => rw [h1] at h; exact h
    | ok u =>
      rw [h1] at h
      simp only at h ⊢
      cases h2 : v2.asString with
      | error e => rw [h2] at h; exact h
      | ok t => rw [h2] at h; simp [Entities.find?] at h
  | _ => exact h

theorem hasAttrV_type_store (es : Entities) (a : String) (v : Value)
    (h : hasAttrV [] a v = .error .type) : hasAttrV es a v = .error .type := by
  cases v with
  | prim p => cases p <;> simp_all [hasAttrV, Entities.find?]
  | record kvs => simp [hasAttrV] at h
  | set vs => rfl
  | ext x => rfl

/-- what C03 (`soundM`) and C16's faithfulness (`annot_res`) give for one typed node: the residual the TPE starts from
evaluates like the node, and the node is `Good` -/
theorem node_of (hWF : SchemaWF2 s) (henv : EnvMatches s env w.q) (hs : Sem s env w) (hsl : w.sl = [])
    {e : Expr} (hf : InFragmentM m env e = true) {caps : Capabilities} {τ : CedarType} {c' : Capabilities}
    (ht : typeOf m s env e caps = .ok (τ, c')) {te : TExpr} (ha : annotate m s env e caps = .ok te)
    (hc : CapsHold w caps) {R : Residual} (hR : Residual.ofExpr te.erase = some R) :
    R.eval w.q w.es = w.eval e ∧ Good w e τ c' := by
  have hfa := (Level.annot_res (n := 0) hWF henv hs e hf caps te ha hc).faithful
  rw [hsl] at hfa
  refine ⟨?_, (Level.good_of hWF henv hs hf ht hc).2⟩
  rw [ofExpr_eval te.erase R hR, hfa]
  show evaluate w.q w.es [] e = evaluate w.q w.es w.sl e
  rw [hsl]

theorem isBoolR_of_good {e : Expr} {τ : CedarType} {c : Capabilities} (g : Good w e τ c) (hb : Boolish τ) {R : Residual}
    (hR : R.eval w.q w.es = w.eval e) : IsBoolR w.q w.es R := by
  intro v hv
  rw [hR] at hv
  rcases g.1.bool_cases hb with ⟨err, he, _⟩ | ⟨b, hb', _, _⟩
  · rw [he] at hv; cases hv
  · rw [hb'] at hv; cases hv; exact ⟨b, rfl⟩

theorem evB_eval {e : Expr} {R : Residual} (hR : R.eval w.q w.es = w.eval e) {b : Bool} (h : EvB w.q w.es R b) :
    evaluate w.q w.es w.sl e = .ok (.prim (.bool b)) := by
  have : w.eval e = evaluate w.q w.es w.sl e := rfl
  rw [← this, ← hR]; exact h

mutual
/-- **the typed AST is type-safe**: for an expression the typechecker model types, in a world satisfying the C03 premises,
the residual `try_from_typed_expr` builds from the typed AST (`te.erase`) is `TypeSafe` on the request and the store. -/
theorem annot_typeSafe (hWF : SchemaWF2 s) (henv : EnvMatches s env w.q) (hs : Sem s env w) (hsl : w.sl = []) :
    ∀ (e : Expr), InFragmentM m env e = true → ∀ (caps : Capabilities) (x : CedarType × Capabilities),
      typeOf m s env e caps = .ok x → ∀ (te : TExpr), annotate m s env e caps = .ok te → CapsHold w caps →
      ∀ (R : Residual), Residual.ofExpr te.erase = some R → TypeSafe w.q w.es R
  | .lit p, _, caps, x, _, te, ha, _, R, hR => by
    simp only [annotate, Except.ok.injEq] at ha; subst ha
    simp only [TExpr.erase, Residual.ofExpr, Option.some.injEq] at hR; subst hR
    exact .concrete _ _
  | .var v, _, caps, x, _, te, ha, _, R, hR => by
    simp only [annotate, Except.ok.injEq] at ha; subst ha
    simp only [TExpr.erase, Residual.ofExpr, Option.some.injEq] at hR; subst hR
    exact .var _ _
  | .slot sid, _, caps, x, _, te, ha, _, R, hR => by
    simp only [annotate, Except.ok.injEq] at ha; subst ha
    simp [TExpr.erase, Residual.ofExpr] at hR
  | .unknown _ _, _, caps, x, _, te, ha, _, R, hR => by simp [annotate] at ha
  | .ite c t e, hf, caps, x, ht, te, ha, hc, R, hR => by
    simp only [InFragmentM, Bool.and_eq_true] at hf
    obtain ⟨⟨⟨hfc, hft⟩, hfe⟩, _⟩ := hf
    simp only [typeOf] at ht
    cases hC : expectOneOf (typeOf m s env c caps) [boolT] with
    | error err => rw [hC] at ht; cases ht
    | ok pc =>
      obtain ⟨τc, cc⟩ := pc
      rw [hC] at ht; simp only at ht
      obtain ⟨htc, hsc⟩ := expectOneOf_ok hC
      simp only [annotate, htc] at ha
      cases hac : annotate m s env c caps with
      | error err => simp [hac] at ha
      | ok tc =>
        simp only [hac] at ha
        cases hT : τc.isTrue with
        | true =>
          simp only [hT, if_true] at ha ht
          have := isTrue_eq hT; subst this
          cases hTt : typeOf m s env t (caps.union cc) with
          | error err => rw [hTt] at ht; cases ht
          | ok pt =>
            cases hat : annotate m s env t (caps.union cc) with
            | error err => simp [hat] at ha
            | ok tt =>
              simp only [hat, Except.ok.injEq] at ha; subst ha
              simp only [TExpr.erase, Residual.ofExpr] at hR
              cases hrc : Residual.ofExpr tc.erase <;> cases hrt : Residual.ofExpr tt.erase <;> simp [hrc, hrt] at hR
              subst hR
              rename_i rc rt
              obtain ⟨evc, gc⟩ := node_of hWF henv hs hsl hfc htc hac hc hrc
              obtain ⟨hcv, hcc⟩ := Level.tt_cases gc
              have hct : TypeSafe w.q w.es rt :=
                annot_typeSafe hWF henv hs hsl t hft _ pt hTt tt hat (capsHold_union.mpr ⟨hc, hcc⟩) rt hrt
              exact .ite (annot_typeSafe hWF henv hs hsl c hfc caps _ htc tc hac hc rc hrc)
                (isBoolR_of_good gc (subtype_bool hsc) evc) (fun _ => hct)
                (fun hff => (Level.not_false_of hcv (evB_eval evc hff)).elim)
        | false =>
          simp only [hT, Bool.false_eq_true, if_false] at ha ht
          cases hF : τc.isFalse with
          | true =>
            simp only [hF, if_true] at ha ht
            have := isFalse_eq hF; subst this
            cases hae : annotate m s env e caps with
            | error err => simp [hae] at ha
            | ok te' =>
              simp only [hae, Except.ok.injEq] at ha; subst ha
              simp only [TExpr.erase, Residual.ofExpr] at hR
              cases hrc : Residual.ofExpr tc.erase <;> cases hre : Residual.ofExpr te'.erase <;> simp [hrc, hre] at hR
              subst hR
              rename_i rc re
              obtain ⟨evc, gc⟩ := node_of hWF henv hs hsl hfc htc hac hc hrc
              have hcv := Level.ff_cases gc
              have hce : TypeSafe w.q w.es re := annot_typeSafe hWF henv hs hsl e hfe _ x ht te' hae hc re hre
              exact .ite (annot_typeSafe hWF henv hs hsl c hfc caps _ htc tc hac hc rc hrc)
                (isBoolR_of_good gc (subtype_bool hsc) evc)
                (fun htt => (Level.not_true_of hcv (evB_eval evc htt)).elim) (fun _ => hce)
          | false =>
            simp only [hF, Bool.false_eq_true, if_false] at ha ht
            obtain ⟨τt, ct, τe, ce, hTt, hTe, _⟩ := both_ok ht
            cases hat : annotate m s env t (caps.union cc) with
            | error err => simp [hat] at ha
            | ok tt =>
              cases hae : annotate m s env e caps with
              | error err => simp [hat, hae] at ha
              | ok te' =>
                simp only [hat, hae, Except.ok.injEq] at ha; subst ha
                simp only [TExpr.erase, Residual.ofExpr] at hR
                cases hrc : Residual.ofExpr tc.erase <;> cases hrt : Residual.ofExpr tt.erase <;>
                  cases hre : Residual.ofExpr te'.erase <;> simp [hrc, hrt, hre] at hR
                subst hR
                rename_i rc rt re
                obtain ⟨evc, gc⟩ := node_of hWF henv hs hsl hfc htc hac hc hrc
                exact .ite (annot_typeSafe hWF henv hs hsl c hfc caps _ htc tc hac hc rc hrc)
                  (isBoolR_of_good gc (subtype_bool hsc) evc)
                  (fun htt => annot_typeSafe hWF henv hs hsl t hft _ _ hTt tt hat
                    (capsHold_union.mpr ⟨hc, Level.caps_of_true gc (evB_eval evc htt)⟩) rt hrt)
                  (fun _ => annot_typeSafe hWF henv hs hsl e hfe _ _ hTe te' hae hc re hre)
  | .and a b, hf, caps, x, ht, te, ha, hc, R, hR => by
    simp only [InFragmentM, Bool.and_eq_true] at hf
    simp only [typeOf] at ht
    cases hA : expectOneOf (typeOf m s env a caps) [boolT] with
    | error err => rw [hA] at ht; cases ht
    | ok pa =>
      obtain ⟨τa, ca⟩ := pa
      rw [hA] at ht; simp only at ht
      obtain ⟨hta, hsa⟩ := expectOneOf_ok hA
      simp only [annotate, hta] at ha
      cases haa : annotate m s env a caps with
      | error err => simp [haa] at ha
      | ok ta =>
        simp only [haa] at ha
        cases hF : τa.isFalse with
        | true =>
          simp only [hF, if_true, Except.ok.injEq] at ha; subst ha
          exact annot_typeSafe hWF henv hs hsl a hf.1 caps _ hta ta haa hc R hR
        | false =>
          simp only [hF, Bool.false_eq_true, if_false] at ha ht
          cases hB : expectOneOf (typeOf m s env b (caps.union ca)) [boolT] with
          | error err => rw [hB] at ht; cases ht
          | ok pb =>
            obtain ⟨τb, cb⟩ := pb
            obtain ⟨htb, hsb⟩ := expectOneOf_ok hB
            cases hab : annotate m s env b (caps.union ca) with
            | error err => simp [hab] at ha
            | ok tb =>
              simp only [hab, Except.ok.injEq] at ha; subst ha
              simp only [TExpr.erase, Residual.ofExpr] at hR
              cases hra : Residual.ofExpr ta.erase <;> cases hrb : Residual.ofExpr tb.erase <;> simp [hra, hrb] at hR
              subst hR
              rename_i ra rb
              obtain ⟨eva, ga⟩ := node_of hWF henv hs hsl hf.1 hta haa hc hra
              have hb : EvB w.q w.es ra true → TypeSafe w.q w.es rb ∧ IsBoolR w.q w.es rb := by
                intro htt
                have hc' : CapsHold w (caps.union ca) := capsHold_union.mpr ⟨hc, Level.caps_of_true ga (evB_eval eva htt)⟩
                obtain ⟨evb, gb⟩ := node_of hWF henv hs hsl hf.2 htb hab hc' hrb
                exact ⟨annot_typeSafe hWF henv hs hsl b hf.2 _ _ htb tb hab hc' rb hrb,
                  isBoolR_of_good gb (subtype_bool hsb) evb⟩
              exact .and (annot_typeSafe hWF henv hs hsl a hf.1 caps _ hta ta haa hc ra hra)
                (isBoolR_of_good ga (subtype_bool hsa) eva) (fun h => (hb h).1) (fun h => (hb h).2)
  | .or a b, hf, caps, x, ht, te, ha, hc, R, hR => by
    simp only [InFragmentM, Bool.and_eq_true] at hf
    simp only [typeOf] at ht
    cases hA : expectOneOf (typeOf m s env a caps) [boolT] with
    | error err => rw [hA] at ht; cases ht
    | ok pa =>
      obtain ⟨τa, ca⟩ := pa
      rw [hA] at ht; simp only at ht
      obtain ⟨hta, hsa⟩ := expectOneOf_ok hA
      simp only [annotate, hta] at ha
      cases haa : annotate m s env a caps with
      | error err => simp [haa] at ha
      | ok ta =>
        simp only [haa] at ha
        cases hT : τa.isTrue with
        | true =>
          simp only [hT, if_true, Except.ok.injEq] at ha; subst ha
          exact annot_typeSafe hWF henv hs hsl a hf.1 caps _ hta ta haa hc R hR
        | false =>
          simp only [hT, Bool.false_eq_true, if_false] at ha ht
          cases hB : expectOneOf (typeOf m s env b caps) [boolT] with
          | error err => rw [hB] at ht; cases ht
          | ok pb =>
            obtain ⟨τb, cb⟩ := pb
            obtain ⟨htb, hsb⟩ := expectOneOf_ok hB
            cases hab : annotate m s env b caps with
            | error err => simp [hab] at ha
            | ok tb =>
              simp only [hab, Except.ok.injEq] at ha; subst ha
              simp only [TExpr.erase, Residual.ofExpr] at hR
              cases hra : Residual.ofExpr ta.erase <;> cases hrb : Residual.ofExpr tb.erase <;> simp [hra, hrb] at hR
              subst hR
              rename_i ra rb
              obtain ⟨eva, ga⟩ := node_of hWF henv hs hsl hf.1 hta haa hc hra
              obtain ⟨evb, gb⟩ := node_of hWF henv hs hsl hf.2 htb hab hc hrb
              exact .or (annot_typeSafe hWF henv hs hsl a hf.1 caps _ hta ta haa hc ra hra)
                (isBoolR_of_good ga (subtype_bool hsa) eva)
                (fun _ => annot_typeSafe hWF henv hs hsl b hf.2 _ _ htb tb hab hc rb hrb)
                (fun _ => isBoolR_of_good gb (subtype_bool hsb) evb)
  | .unaryApp op a, hf, caps, x, ht, te, ha, hc, R, hR => by
    obtain ⟨τ, c'⟩ := x
    obtain ⟨evN, gN⟩ := node_of hWF henv hs hsl hf ht ha hc hR
    simp only [InFragmentM] at hf
    have hta : ∃ y, typeOf m s env a caps = .ok y := by
      cases op <;> simp only [typeOf] at ht
      · cases hA : expectOneOf (typeOf m s env a caps) [boolT] with
        | error err => rw [hA] at ht; cases ht
        | ok pa => exact ⟨_, Level.ok_of_expect hA⟩
      · cases hA : expectOneOf (typeOf m s env a caps) [.long] with
        | error err => rw [hA] at ht; cases ht
        | ok pa => exact ⟨_, Level.ok_of_expect hA⟩
      · cases hA : expectOneOf (typeOf m s env a caps) [.set none] with
        | error err => rw [hA] at ht; cases ht
        | ok pa => exact ⟨_, Level.ok_of_expect hA⟩
    obtain ⟨y, hy⟩ := hta
    simp only [annotate] at ha
    cases haa : annotate m s env a caps with
    | error err => simp [haa] at ha
    | ok ta =>
      simp only [haa, Except.ok.injEq] at ha; subst ha
      simp only [TExpr.erase, Residual.ofExpr] at hR
      cases hra : Residual.ofExpr ta.erase <;> simp [hra] at hR
      subst hR
      rename_i ra
      refine .unary (annot_typeSafe hWF henv hs hsl a hf caps y hy ta haa hc ra hra) (fun v hv hbad => ?_)
      apply good_not_type gN
      rw [← evN]
      simp only [Residual.eval, RKind.eval, hv, bindR]
      exact hbad
  | .binaryApp op a b, hf, caps, x, ht, te, ha, hc, R, hR => by
    obtain ⟨τ, c'⟩ := x
    obtain ⟨evN, gN⟩ := node_of hWF henv hs hsl hf ht ha hc hR
    simp only [InFragmentM, Bool.and_eq_true] at hf
    have hts : (∃ y, typeOf m s env a caps = .ok y) ∧ (∃ y, typeOf m s env b caps = .ok y) := by
      cases op <;> simp only [typeOf] at ht <;> obtain ⟨τa, ca, τb, cb, hA, hB, _⟩ := both_ok ht <;>
        exact ⟨⟨_, by first | exact hA | exact Level.ok_of_expect hA⟩, ⟨_, by first | exact hB | exact Level.ok_of_expect hB⟩⟩
    obtain ⟨⟨ya, hya⟩, ⟨yb, hyb⟩⟩ := hts
    simp only [annotate] at ha
    cases haa : annotate m s env a caps with
    | error err => simp [haa] at ha
    | ok ta =>
      cases hab : annotate m s env b caps with
      | error err => simp [haa, hab] at ha
      | ok tb =>
        simp only [haa, hab, Except.ok.injEq] at ha; subst ha
        simp only [TExpr.erase, Residual.ofExpr] at hR
        cases hra : Residual.ofExpr ta.erase <;> cases hrb : Residual.ofExpr tb.erase <;> simp [hra, hrb] at hR
        subst hR
        rename_i ra rb
        refine .binary (annot_typeSafe hWF henv hs hsl a hf.1.2 caps ya hya ta haa hc ra hra)
          (annot_typeSafe hWF henv hs hsl b hf.2 caps yb hyb tb hab hc rb hrb) (fun v1 v2 h1 h2 hbad => ?_)
        apply good_not_type gN
        rw [← evN]
        simp only [Residual.eval, RKind.eval, h1, h2, bindR]
        exact applyBinary_type_store w.es op v1 v2 hbad
  | .call fn args, hf, caps, x, ht, te, ha, hc, R, hR => by
    simp only [InFragmentM] at hf
    simp only [typeOf] at ht
    cases hsig : extSig fn with
    | none =>
      rw [hsig] at ht; simp only at ht
      split at ht <;> cases ht
    | some sig =>
      rw [hsig] at ht; simp only at ht
      cases hL : typeOfList m s env args caps with
      | error err => rw [hL] at ht; cases ht
      | ok τs =>
        simp only [annotate] at ha
        cases hl : annotateList m s env args caps with
        | error err => simp [hl] at ha
        | ok ts =>
          simp only [hl, Except.ok.injEq] at ha; subst ha
          simp only [TExpr.erase, Residual.ofExpr] at hR
          cases hrs : Residual.ofExprList (eraseList ts) <;> simp [hrs] at hR
          subst hR
          rename_i rs
          exact .call (annot_typeSafeList hWF henv hs hsl args hf caps τs hL ts hl hc rs hrs)
  | .getAttr e a, hf, caps, x, ht, te, ha, hc, R, hR => by
    simp only [InFragmentM] at hf
    simp only [typeOf] at ht
    cases hE : expectOneOf (typeOf m s env e caps) [.anyEntity, anyRecord] with
    | error err => rw [hE] at ht; cases ht
    | ok pe =>
      have hte := Level.ok_of_expect hE
      simp only [annotate, hte] at ha
      cases hae : annotate m s env e caps with
      | error err => simp [hae] at ha
      | ok te' =>
        simp only [hae, Except.ok.injEq] at ha; subst ha
        simp only [TExpr.erase, Residual.ofExpr] at hR
        cases hre : Residual.ofExpr te'.erase <;> simp [hre] at hR
        subst hR
        rename_i re
        exact .getAttr (annot_typeSafe hWF henv hs hsl e hf caps pe hte te' hae hc re hre)
  | .hasAttr e a, hf, caps, x, ht, te, ha, hc, R, hR => by
    obtain ⟨τ, c'⟩ := x
    obtain ⟨evN, gN⟩ := node_of hWF henv hs hsl hf ht ha hc hR
    simp only [InFragmentM] at hf
    simp only [typeOf] at ht
    cases hE : expectOneOf (typeOf m s env e caps) [.anyEntity, anyRecord] with
    | error err => rw [hE] at ht; cases ht
    | ok pe =>
      have hte := Level.ok_of_expect hE
      simp only [annotate, hte] at ha
      cases hae : annotate m s env e caps with
      | error err => simp [hae] at ha
      | ok te' =>
        simp only [hae, Except.ok.injEq] at ha; subst ha
        simp only [TExpr.erase, Residual.ofExpr] at hR
        cases hre : Residual.ofExpr te'.erase <;> simp [hre] at hR
        subst hR
        rename_i re
        refine .hasAttr (annot_typeSafe hWF henv hs hsl e hf caps pe hte te' hae hc re hre) (fun v hv hbad => ?_)
        apply good_not_type gN
        rw [← evN]
        simp only [Residual.eval, RKind.eval, hv, bindR]
        exact hasAttrV_type_store w.es a v hbad
  | .like e p, hf, caps, x, ht, te, ha, hc, R, hR => by
    obtain ⟨τ, c'⟩ := x
    obtain ⟨evN, gN⟩ := node_of hWF henv hs hsl hf ht ha hc hR
    simp only [InFragmentM] at hf
    simp only [typeOf] at ht
    cases hE : expectOneOf (typeOf m s env e caps) [.string] with
    | error err => rw [hE] at ht; cases ht
    | ok pe =>
      have hte := Level.ok_of_expect hE
      simp only [annotate] at ha
      cases hae : annotate m s env e caps with
      | error err => simp [hae] at ha
      | ok te' =>
        simp only [hae, Except.ok.injEq] at ha; subst ha
        simp only [TExpr.erase, Residual.ofExpr] at hR
        cases hre : Residual.ofExpr te'.erase <;> simp [hre] at hR
        subst hR
        rename_i re
        refine .like (annot_typeSafe hWF henv hs hsl e hf caps pe hte te' hae hc re hre) (fun v hv hbad => ?_)
        apply good_not_type gN
        rw [← evN]
        simp only [Residual.eval, RKind.eval, hv, bindR]
        exact hbad
  | .is e ty, hf, caps, x, ht, te, ha, hc, R, hR => by
    obtain ⟨τ, c'⟩ := x
    obtain ⟨evN, gN⟩ := node_of hWF henv hs hsl hf ht ha hc hR
    simp only [InFragmentM] at hf
    simp only [typeOf] at ht
    cases hE : expectOneOf (typeOf m s env e caps) [.anyEntity] with
    | error err => rw [hE] at ht; cases ht
    | ok pe =>
      have hte := Level.ok_of_expect hE
      simp only [annotate] at ha
      cases hae : annotate m s env e caps with
      | error err => simp [hae] at ha
      | ok te' =>
        simp only [hae, Except.ok.injEq] at ha; subst ha
        simp only [TExpr.erase, Residual.ofExpr] at hR
        cases hre : Residual.ofExpr te'.erase <;> simp [hre] at hR
        subst hR
        rename_i re
        refine .is (annot_typeSafe hWF henv hs hsl e hf caps pe hte te' hae hc re hre) (fun v hv hbad => ?_)
        apply good_not_type gN
        rw [← evN]
        simp only [Residual.eval, RKind.eval, hv, bindR]
        exact hbad
  | .set xs, hf, caps, x, ht, te, ha, hc, R, hR => by
    simp only [InFragmentM, Bool.and_eq_true] at hf
    simp only [typeOf] at ht
    cases hL : typeOfList m s env xs caps with
    | error err => rw [hL] at ht; cases ht
    | ok τs =>
      simp only [annotate] at ha
      cases hl : annotateList m s env xs caps with
      | error err => simp [hl] at ha
      | ok ts =>
        simp only [hl, Except.ok.injEq] at ha; subst ha
        simp only [TExpr.erase, Residual.ofExpr] at hR
        cases hrs : Residual.ofExprList (eraseList ts) <;> simp [hrs] at hR
        subst hR
        rename_i rs
        exact .set (annot_typeSafeList hWF henv hs hsl xs hf.1 caps τs hL ts hl hc rs hrs)
  | .record kvs, hf, caps, x, ht, te, ha, hc, R, hR => by
    simp only [InFragmentM, Bool.and_eq_true] at hf
    simp only [typeOf] at ht
    cases hL : typeOfKVs m s env kvs caps with
    | error err => rw [hL] at ht; cases ht
    | ok attrs =>
      simp only [annotate] at ha
      cases hl : annotateKVs m s env kvs caps with
      | error err => simp [hl] at ha
      | ok ts =>
        simp only [hl, Except.ok.injEq] at ha; subst ha
        simp only [TExpr.erase, Residual.ofExpr] at hR
        cases hrs : Residual.ofExprKVs (eraseKVs ts) <;> simp [hrs] at hR
        subst hR
        rename_i rs
        exact .record (annot_typeSafeKVs hWF henv hs hsl kvs hf.1 caps attrs hL ts hl hc rs hrs)
theorem annot_typeSafeList (hWF : SchemaWF2 s) (henv : EnvMatches s env w.q) (hs : Sem s env w) (hsl : w.sl = []) :
    ∀ (es : List Expr), InFragmentMList m env es = true → ∀ (caps : Capabilities) (τs : List CedarType),
      typeOfList m s env es caps = .ok τs → ∀ (ts : List TExpr), annotateList m s env es caps = .ok ts → CapsHold w caps →
      ∀ (rs : List Residual), Residual.ofExprList (eraseList ts) = some rs → ∀ r, r ∈ rs → TypeSafe w.q w.es r
  | [], _, caps, τs, _, ts, ha, _, rs, hR => by
    simp only [annotateList, Except.ok.injEq] at ha; subst ha
    simp only [eraseList, Residual.ofExprList, Option.some.injEq] at hR; subst hR
    intro r hr; cases hr
  | e :: es, hf, caps, τs, ht, ts, ha, hc, rs, hR => by
    simp only [InFragmentMList, Bool.and_eq_true] at hf
    obtain ⟨τ, c, τs', h1, h2, _⟩ := typeOfList_cons ht
    simp only [annotateList] at ha
    cases ha1 : annotate m s env e caps with
    | error err => simp [ha1] at ha
    | ok t =>
      cases ha2 : annotateList m s env es caps with
      | error err => simp [ha1, ha2] at ha
      | ok ts' =>
        simp only [ha1, ha2, Except.ok.injEq] at ha; subst ha
        simp only [eraseList, Residual.ofExprList] at hR
        cases hr1 : Residual.ofExpr t.erase <;> cases hr2 : Residual.ofExprList (eraseList ts') <;> simp [hr1, hr2] at hR
        subst hR
        rename_i r1 rs'
        intro r hr
        rcases List.mem_cons.mp hr with rfl | hr
        · exact annot_typeSafe hWF henv hs hsl e hf.1 caps _ h1 t ha1 hc _ hr1
        · exact annot_typeSafeList hWF henv hs hsl es hf.2 caps τs' h2 ts' ha2 hc rs' hr2 r hr
theorem annot_typeSafeKVs (hWF : SchemaWF2 s) (henv : EnvMatches s env w.q) (hs : Sem s env w) (hsl : w.sl = []) :
    ∀ (es : List (String × Expr)), InFragmentMKVs m env es = true → ∀ (caps : Capabilities) (attrs : Attrs),
      typeOfKVs m s env es caps = .ok attrs → ∀ (ts : List (String × TExpr)), annotateKVs m s env es caps = .ok ts →
      CapsHold w caps → ∀ (rs : List (String × Residual)), Residual.ofExprKVs (eraseKVs ts) = some rs →
      ∀ kv, kv ∈ rs → TypeSafe w.q w.es kv.2
  | [], _, caps, attrs, _, ts, ha, _, rs, hR => by
    simp only [annotateKVs, Except.ok.injEq] at ha; subst ha
    simp only [eraseKVs, Residual.ofExprKVs, Option.some.injEq] at hR; subst hR
    intro r hr; cases hr
  | (k, e) :: es, hf, caps, attrs, ht, ts, ha, hc, rs, hR => by
    simp only [InFragmentMKVs, Bool.and_eq_true] at hf
    obtain ⟨τ, c, attrs', h1, h2, _⟩ := typeOfKVs_cons ht
    simp only [annotateKVs] at ha
    cases ha1 : annotate m s env e caps with
    | error err => simp [ha1] at ha
    | ok t =>
      cases ha2 : annotateKVs m s env es caps with
      | error err => simp [ha1, ha2] at ha
      | ok ts' =>
        simp only [ha1, ha2, Except.ok.injEq] at ha; subst ha
        simp only [eraseKVs, Residual.ofExprKVs] at hR
        cases hr1 : Residual.ofExpr t.erase <;> cases hr2 : Residual.ofExprKVs (eraseKVs ts') <;> simp [hr1, hr2] at hR
        subst hR
        rename_i r1 rs'
        intro r hr
        rcases List.mem_cons.mp hr with rfl | hr
        · exact annot_typeSafe hWF henv hs hsl e hf.1 caps _ h1 t ha1 hc _ hr1
        · exact annot_typeSafeKVs hWF henv hs hsl es hf.2 caps attrs' h2 ts' ha2 hc rs' hr2 r hr
end

end Cedar.Tpe.Valid
