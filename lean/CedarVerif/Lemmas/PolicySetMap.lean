import CedarVerif.Cedar.PolicySet
/-
C08 helper lemmas, part 2: the insertion-ordered maps (`LHM`) used by the policy-set model.
-/
namespace Cedar
namespace LHM

variable {α : Type}

theorem contains_eq (m : LHM α) (k : String) : m.contains k = (m.get? k).isSome := rfl

@[simp] theorem get?_nil (k : String) : LHM.get? ([] : LHM α) k = none := rfl

theorem get?_cons (k' : String) (v : α) (m : LHM α) (k : String) :
    LHM.get? ((k', v) :: m) k = if k' = k then some v else LHM.get? m k := by
  simp [LHM.get?]

theorem get?_append (m m' : LHM α) (k : String) :
    LHM.get? (m ++ m') k = match LHM.get? m k with
      | some v => some v
      | none => LHM.get? m' k := by
  induction m with
  | nil => simp
  | cons e m ih =>
    obtain ⟨k', v⟩ := e
    simp only [List.cons_append, get?_cons]
    by_cases h : k' = k
    · simp [h]
    · simp [h, ih]

theorem get?_erase (m : LHM α) (k k' : String) :
    LHM.get? (m.erase k) k' = if k' = k then none else LHM.get? m k' := by
  induction m with
  | nil => simp [LHM.erase]
  | cons e m ih =>
    obtain ⟨k0, v⟩ := e
    unfold LHM.erase at ih ⊢
    simp only [List.filter_cons]
    by_cases h0 : k0 = k
    · subst h0
      simp only [beq_self_eq_true, Bool.not_true, Bool.false_eq_true, if_false, ih, get?_cons]
      by_cases h : k' = k0
      · simp [h]
      · have : ¬ k0 = k' := fun e => h e.symm
        simp [h, this]
    · have hb : (k0 == k) = false := by simp [h0]
      simp only [hb, Bool.not_false, if_true, get?_cons, ih]
      by_cases h : k0 = k'
      · subst h
        simp [h0]
      · simp [h]

theorem get?_insert (m : LHM α) (k : String) (v : α) (k' : String) :
    LHM.get? (m.insert k v) k' = if k' = k then some v else LHM.get? m k' := by
  unfold LHM.insert
  rw [get?_append, get?_erase]
  by_cases h : k' = k
  · subst h
    simp [get?_cons]
  · have : ¬ k = k' := fun e => h e.symm
    simp only [h, if_false, get?_cons, this, get?_nil]
    cases LHM.get? m k' <;> rfl

theorem get?_modify (m : LHM α) (k : String) (f : α → α) (k' : String) :
    LHM.get? (m.modify k f) k' = if k' = k then (LHM.get? m k).map f else LHM.get? m k' := by
  induction m with
  | nil => simp [LHM.modify]
  | cons e m ih =>
    obtain ⟨k0, v⟩ := e
    unfold LHM.modify at ih ⊢
    simp only [List.map_cons]
    by_cases h0 : k0 = k
    · subst h0
      simp only [beq_self_eq_true, if_true, get?_cons, ih]
      by_cases h : k0 = k'
      · subst h; simp
      · have : ¬ k' = k0 := fun e => h e.symm
        simp [h, this]
    · have hb : (k0 == k) = false := by simp [h0]
      simp only [hb, Bool.false_eq_true, if_false, get?_cons, ih]
      by_cases h : k0 = k'
      · subst h; simp [h0]
      · simp [h, h0]

theorem get?_snoc (m : LHM α) (k : String) (v : α) (k' : String) :
    LHM.get? (m ++ [(k, v)]) k' = match LHM.get? m k' with
      | some w => some w
      | none => if k = k' then some v else none := by
  rw [get?_append]; simp [get?_cons]

/-- appending a binding for an absent key behaves like a map update -/
theorem get?_snoc_absent (m : LHM α) (k : String) (v : α) (h : LHM.get? m k = none) (k' : String) :
    LHM.get? (m ++ [(k, v)]) k' = if k' = k then some v else LHM.get? m k' := by
  rw [get?_snoc]
  by_cases hk : k' = k
  · subst hk; simp [h]
  · have : ¬ k = k' := fun e => hk e.symm
    simp only [this, hk, if_false]
    cases LHM.get? m k' <;> rfl

/-! keys -/

theorem mem_keys_iff (m : LHM α) (k : String) : k ∈ m.keys ↔ (LHM.get? m k).isSome = true := by
  induction m with
  | nil => simp [LHM.keys]
  | cons e m ih =>
    obtain ⟨k0, v⟩ := e
    unfold LHM.keys at ih ⊢
    simp only [List.map_cons, List.mem_cons, get?_cons, ih]
    by_cases h : k0 = k
    · simp [h]
    · have : ¬ k = k0 := fun e => h e.symm
      simp [h, this]

theorem keys_snoc (m : LHM α) (k : String) (v : α) : LHM.keys (m ++ [(k, v)]) = m.keys ++ [k] := by
  simp [LHM.keys]

theorem keys_erase (m : LHM α) (k : String) : (m.erase k).keys = m.keys.filter (fun x => !(x == k)) := by
  induction m with
  | nil => rfl
  | cons e m ih =>
    obtain ⟨k0, v⟩ := e
    unfold LHM.erase LHM.keys at ih ⊢
    simp only [List.filter_cons, List.map_cons]
    by_cases h : k0 = k
    · simp [h, ih]
    · have hb : (k0 == k) = false := by simp [h]
      simp [hb, ih]

theorem keys_modify (m : LHM α) (k : String) (f : α → α) : (m.modify k f).keys = m.keys := by
  induction m with
  | nil => rfl
  | cons e m ih =>
    obtain ⟨k0, v⟩ := e
    unfold LHM.modify LHM.keys at ih ⊢
    simp only [List.map_cons, ih]
    by_cases h : k0 = k <;> simp [h]

theorem nodup_snoc (m : LHM α) (k : String) (v : α) (h : m.keys.Nodup) (hk : LHM.get? m k = none) :
    (LHM.keys (m ++ [(k, v)])).Nodup := by
  rw [keys_snoc]
  rw [List.nodup_append]
  refine ⟨h, by simp, ?_⟩
  intro a ha b hb
  simp only [List.mem_singleton] at hb
  subst hb
  intro e
  subst e
  have := (mem_keys_iff m a).mp ha
  simp [hk] at this

theorem nodup_erase (m : LHM α) (k : String) (h : m.keys.Nodup) : (m.erase k).keys.Nodup := by
  rw [keys_erase]
  exact List.Pairwise.filter _ h

theorem nodup_insert (m : LHM α) (k : String) (v : α) (h : m.keys.Nodup) : (m.insert k v).keys.Nodup := by
  unfold LHM.insert
  apply nodup_snoc
  · exact nodup_erase m k h
  · simp [get?_erase]

theorem nodup_modify (m : LHM α) (k : String) (f : α → α) (h : m.keys.Nodup) : (m.modify k f).keys.Nodup := by
  rw [keys_modify]; exact h

end LHM

theorem mem_lhsInsert (s : List String) (x y : String) : y ∈ lhsInsert s x ↔ y ∈ s ∨ y = x := by
  unfold lhsInsert
  simp only [List.mem_append, List.mem_filter, List.mem_singleton, Bool.not_eq_true', beq_eq_false_iff_ne, ne_eq]
  constructor
  · rintro (⟨h, _⟩ | h)
    · exact Or.inl h
    · exact Or.inr h
  · rintro (h | h)
    · by_cases e : y = x
      · exact Or.inr e
      · exact Or.inl ⟨h, e⟩
    · exact Or.inr h

theorem mem_lhsRemove (s : List String) (x y : String) : y ∈ lhsRemove s x ↔ y ∈ s ∧ y ≠ x := by
  unfold lhsRemove
  simp [List.mem_filter]

end Cedar
