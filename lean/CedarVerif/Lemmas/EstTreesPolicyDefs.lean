import CedarVerif.Cedar.Est.Trees
import CedarVerif.Cedar.Est.Policy
/-
Message-tree models of the PST and protobuf formats, POLICY level (templates, static / linked policies,
link records).  They extend the expression-level models of Cedar/Est/Trees.lean and are used only by the C06
theorems (Thm/C06.lean); they are not part of the compiled driver (no correspondence stream reads them: the
policy-level PST / protobuf round trips are sampled on the implementation by harness checks (c) and (d)).

 * `Cedar.Pst`   : cedar-policy-core/src/pst/{policy,constraints,policy_set}.rs and the policy-level half of
                   pst/ast_conversions.rs
                     `ofTemplate` = `TryFrom<ast::Template> for pst::Template` (+ `try_with_clauses` / `validate_clause`)
                     `toTemplate` = `TryFrom<pst::Template> for ast::Template`
                     `ofPolicy` / `toPolicy` = `TryFrom<ast::Policy> for pst::Policy` and back
                     `ofLink` / `toLink` = `pst::TemplateLink` as written by `PolicySet::to_pst` / read by `from_pst`
 * `Cedar.Proto` : cedar-policy/protobuf_schema/core.proto (`TemplateBody`, `PrincipalOrResourceConstraint`,
                   `EntityReference`, `ActionConstraint`, `Policy`) and cedar-policy/src/proto/policy.rs
                     `ofTemplate` = `From<&ast::TemplateBody> for models::TemplateBody` (`none` = the `Unknown` panic)
                     `toTemplate` = `TryFrom<models::TemplateBody> for ast::TemplateBody`
                     `ofPolicy`   = `From<&ast::Policy> for models::Policy`
                     `toPolicy`   = `reify_template_link` / `reify_static_policy`
As in `Est.Template`, policy ids are not part of a template (both formats carry the id through unchanged).
Names (`pst::Name`, `models::Name {id, path}`) are kept as the string they print as; the protobuf decoder's
`Id::from_normalized_str` checks are `validName`.  Maps (`HashMap<SlotId, EntityUID>`, the protobuf annotation
map) are association lists.  Messages with absent sub-messages / out-of-range enum numbers (never produced by the
encoder) are not modelled.
-/
namespace Cedar.Pst
open Cedar Cedar.Est

/-- `pst::EntityOrSlot` -/
inductive EntityOrSlot where
  | entity (u : EntityUID)
  | slot (s : SlotId)
deriving Repr, DecidableEq, Inhabited

/-- `pst::PrincipalConstraint` / `pst::ResourceConstraint` (two Rust types of the same shape) -/
inductive PScope where
  | any
  | eq (r : EntityOrSlot)
  | mem (r : EntityOrSlot)
  | is (ty : EntityType)
  | isIn (ty : EntityType) (r : EntityOrSlot)
deriving Repr, DecidableEq, Inhabited

/-- `pst::ActionConstraint` -/
inductive PAction where
  | any
  | eq (u : EntityUID)
  | mem (us : List EntityUID)
deriving Repr, DecidableEq, Inhabited

/-- `pst::Clause` -/
inductive Clause where
  | when (e : PExpr)
  | unless (e : PExpr)
deriving Repr, Inhabited

/-- `pst::Template` without its id -/
structure PTemplate where
  effect : Effect
  principal : PScope
  action : PAction
  resource : PScope
  /-- `when` / `unless` clauses in source order -/
  clauses : List Clause
  /-- `BTreeMap<String, SmolStr>` (key-sorted; `""` = no value) -/
  annotations : List (String × String)
deriving Repr, Inhabited

/-- error classes of `PstConstructionError` on the AST → PST route -/
inductive PTErr where
  | badCall          -- the condition has no PST (`Expr::from_function_ast_name_and_args` failed)
  | containsSlot     -- `ContainsSlotError` (`validate_clause`)
  | containsUnknown  -- `InvalidExpressionError("clause contains an `Unknown`")`
  | missingLinkId    -- `PolicyMissingLinkIdError`
deriving Repr, DecidableEq, Inhabited

-- `pst::Expr::has_slots` / `has_unknowns` (`reduce` over all sub-expressions)
mutual
def PExpr.hasSlot : PExpr → Bool
  | .slot _ => true
  | .lit _ => false
  | .var _ => false
  | .unknown _ => false
  | .unary _ e => e.hasSlot
  | .binary _ l r => l.hasSlot || r.hasSlot
  | .getAttr e _ => e.hasSlot
  | .hasAttr e _ _ => e.hasSlot
  | .like e _ => e.hasSlot
  | .is e _ => e.hasSlot
  | .isIn e _ r => e.hasSlot || r.hasSlot
  | .ite c t e => c.hasSlot || t.hasSlot || e.hasSlot
  | .set es => PExpr.hasSlotList es
  | .record kvs => PExpr.hasSlotKVs kvs
  | .badCall _ args => PExpr.hasSlotList args
def PExpr.hasSlotList : List PExpr → Bool
  | [] => false
  | e :: es => e.hasSlot || PExpr.hasSlotList es
def PExpr.hasSlotKVs : List (String × PExpr) → Bool
  | [] => false
  | (_, e) :: kvs => e.hasSlot || PExpr.hasSlotKVs kvs
end

mutual
def PExpr.hasUnknown : PExpr → Bool
  | .unknown _ => true
  | .lit _ => false
  | .var _ => false
  | .slot _ => false
  | .unary _ e => e.hasUnknown
  | .binary _ l r => l.hasUnknown || r.hasUnknown
  | .getAttr e _ => e.hasUnknown
  | .hasAttr e _ _ => e.hasUnknown
  | .like e _ => e.hasUnknown
  | .is e _ => e.hasUnknown
  | .isIn e _ r => e.hasUnknown || r.hasUnknown
  | .ite c t e => c.hasUnknown || t.hasUnknown || e.hasUnknown
  | .set es => PExpr.hasUnknownList es
  | .record kvs => PExpr.hasUnknownKVs kvs
  | .badCall _ args => PExpr.hasUnknownList args
def PExpr.hasUnknownList : List PExpr → Bool
  | [] => false
  | e :: es => e.hasUnknown || PExpr.hasUnknownList es
def PExpr.hasUnknownKVs : List (String × PExpr) → Bool
  | [] => false
  | (_, e) :: kvs => e.hasUnknown || PExpr.hasUnknownKVs kvs
end

/-! ### AST → PST -/

/-- `entity_ref_to_entity_or_slot` -/
def ofRef (slot : SlotId) : EntityRef → EntityOrSlot
  | .euid u => .entity u
  | .slot => .slot slot

/-- `From<ast::PrincipalConstraint> for PrincipalConstraint` (`slot = ?principal`) and the resource twin -/
def ofScope (slot : SlotId) : ScopeC → PScope
  | .any => .any
  | .eq r => .eq (ofRef slot r)
  | .mem r => .mem (ofRef slot r)
  | .is ty => .is ty
  | .isIn ty r => .isIn ty (ofRef slot r)

/-- `TryFrom<ast::ActionConstraint> for ActionConstraint` (the `ErrorConstraint` arm is feature-gated off) -/
def ofAction : ActionC → PAction
  | .any => .any
  | .eq u => .eq u
  | .mem us => .mem us

def Clause.body : Clause → PExpr
  | .when e => e
  | .unless e => e

/-- `validate_clause` -/
def validateClause (c : Clause) : Except PTErr Clause :=
  if c.body.hasSlot then .error .containsSlot
  else if c.body.hasUnknown then .error .containsUnknown
  else .ok c

/-- `try_with_clauses`: `clauses.map(validate_clause).collect::<Result<_, _>>()` -/
def validateClauses : List Clause → Except PTErr (List Clause)
  | [] => .ok []
  | c :: cs => do let c ← validateClause c; let cs ← validateClauses cs; .ok (c :: cs)

/-- the clause list of `TryFrom<ast::Template>`: the whole `non_scope_constraints` as one `when` -/
def ofCond : Option Expr → Except PTErr (List Clause)
  | none => .ok []
  | some e => match ofAst e with
    | .ok p => .ok [.when p]
    | .error _ => .error .badCall

/-- `TryFrom<ast::Template> for pst::Template` -/
def ofTemplate (t : Template) : Except PTErr PTemplate := do
  let clauses ← ofCond t.cond
  let clauses ← validateClauses clauses
  .ok { effect := t.effect
        principal := ofScope .principal t.principal
        action := ofAction t.action
        resource := ofScope .resource t.resource
        clauses
        annotations := t.annotations }

/-! ### PST → AST -/

/-- the slot arms of `TryFrom<PrincipalConstraint> for ast::PrincipalConstraint`: the slot must be the one
of the position (`WrongSlotPositionError`) -/
def toRef (slot : SlotId) : EntityOrSlot → R EntityRef
  | .entity u => .ok (.euid u)
  | .slot s => if s == slot then .ok .slot else .error .slot

def toScope (slot : SlotId) : PScope → R ScopeC
  | .any => .ok .any
  | .eq r => (toRef slot r).map .eq
  | .mem r => (toRef slot r).map .mem
  | .is ty => .ok (.is ty)
  | .isIn ty r => (toRef slot r).map (.isIn ty)

/-- `TryFrom<ActionConstraint> for ast::ActionConstraint` incl. `contains_only_action_types` -/
def toAction (a : PAction) : R ActionC :=
  checkActions (match a with
    | .any => .any
    | .eq u => .eq u
    | .mem us => .mem us)

/-- one clause as an AST expression: `unless e` is `!e` -/
def clauseExpr : Clause → Expr
  | .when e => toAst e
  | .unless e => .unaryApp .not (toAst e)

/-- annotation keys must parse as `AnyId` (keys that are identifiers only after trimming white space or comments,
which Rust's `parse::<AnyId>` accepts and normalises, are rejected here; `ofTemplate` never produces them);
the pairs are collected into a `BTreeMap` -/
def toAnnotations (anns : List (String × String)) : R (List (String × String)) :=
  if anns.all (fun kv => validAnyId kv.1) then
    match sortKVs anns with
    | some s => .ok s
    | none => .error .dupKey
  else .error .badName

/-- `TryFrom<pst::Template> for ast::Template`: clauses are folded right-to-left with `&&`
(`foldConds`, the same fold as the JSON reader), then annotations, then the three scope constraints -/
def toTemplate (m : PTemplate) : R Template := do
  let cond := foldConds (m.clauses.map clauseExpr)
  let annotations ← toAnnotations m.annotations
  let principal ← toScope .principal m.principal
  let action ← toAction m.action
  let resource ← toScope .resource m.resource
  .ok { effect := m.effect, principal, action, resource, annotations, cond }

/-! ### policies: `ast::Policy { template, link, values }` ↔ `pst::Policy` -/

/-- `ast::Policy`: a template, the link id (`None` for a static policy) and the slot values -/
structure AstPolicy where
  template : Template
  link : Option String
  env : SlotEnv
deriving Repr, Inhabited

/-- `pst::Policy` -/
inductive PPolicy where
  | static (body : PTemplate)
  | linked (body : PTemplate) (values : SlotEnv) (instanceId : String)
deriving Repr, Inhabited

def PScope.hasSlot : PScope → Bool
  | .eq (.slot _) | .mem (.slot _) | .isIn _ (.slot _) => true
  | _ => false

/-- `pst::Template::is_static` (the action constraint never has a slot) -/
def PTemplate.isStatic (m : PTemplate) : Bool := !(m.principal.hasSlot || m.resource.hasSlot)

/-- `TryFrom<ast::Policy> for pst::Policy` -/
def ofPolicy (p : AstPolicy) : Except PTErr PPolicy := do
  let m ← ofTemplate p.template
  if m.isStatic then .ok (.static m)
  else match p.link with
    | some id => .ok (.linked m p.env id)
    | none => .error .missingLinkId

/-- `TryFrom<pst::Policy> for ast::Policy` -/
def toPolicy : PPolicy → R AstPolicy
  | .static body => do let t ← toTemplate body; .ok { template := t, link := none, env := [] }
  | .linked body values id => do let t ← toTemplate body; .ok { template := t, link := some id, env := values }

/-- `pst::TemplateLink` -/
structure PTemplateLink where
  templateId : String
  newId : String
  values : SlotEnv
deriving Repr, Inhabited

/-- the link records written by `PolicySet::to_pst` -/
def ofLink (l : Linked) : PTemplateLink := { templateId := l.templateId, newId := l.id, values := l.env }
/-- … and read back by `PolicySet::from_pst` (`set.link(template_id, new_id, values)`) -/
def toLink (m : PTemplateLink) : Linked := { id := m.newId, templateId := m.templateId, env := m.values }

end Cedar.Pst

namespace Cedar.Proto
open Cedar Cedar.Est

/-- `models::EntityReference` (`oneof data`): the slot arm carries no slot id -/
inductive ERefMsg where
  | slot
  | euid (u : EntityUID)
deriving Repr, DecidableEq, Inhabited

/-- `models::PrincipalOrResourceConstraint` (`oneof data`) -/
inductive ScopeMsg where
  | any
  | mem (er : ERefMsg)
  | eq (er : ERefMsg)
  | is (ty : EntityType)
  | isIn (er : ERefMsg) (ty : EntityType)
deriving Repr, DecidableEq, Inhabited

/-- `models::ActionConstraint` (`oneof data`) -/
inductive ActionMsg where
  | any
  | mem (euids : List EntityUID)
  | eq (euid : EntityUID)
deriving Repr, DecidableEq, Inhabited

/-- `models::TemplateBody` without `id`, the three constraint sub-messages present -/
structure TemplateBodyMsg where
  /-- `map<string, string>` -/
  annotations : List (String × String)
  effect : Effect
  principal : ScopeMsg
  action : ActionMsg
  resource : ScopeMsg
  /-- `non_scope_constraints` (optional) -/
  cond : Option Msg
deriving Repr, Inhabited

/-! ### encoder -/

def ofRef : EntityRef → ERefMsg
  | .euid u => .euid u
  | .slot => .slot

def ofScope : ScopeC → ScopeMsg
  | .any => .any
  | .eq r => .eq (ofRef r)
  | .mem r => .mem (ofRef r)
  | .is ty => .is ty
  | .isIn ty r => .isIn (ofRef r) ty

def ofAction : ActionC → ActionMsg
  | .any => .any
  | .eq u => .eq u
  | .mem us => .mem us

/-- `From<&ast::TemplateBody> for models::TemplateBody`; `none` = the encoder panicked on an `Unknown` -/
def ofTemplate (t : Template) : Option TemplateBodyMsg :=
  let mk (c : Option Msg) : TemplateBodyMsg :=
    { annotations := t.annotations, effect := t.effect, principal := ofScope t.principal,
      action := ofAction t.action, resource := ofScope t.resource, cond := c }
  match t.cond with
  | none => some (mk none)
  | some e => (ofAst e).map (fun m => mk (some m))

/-! ### decoder -/

/-- `TryFrom<models::EntityUid> for ast::EntityUID`: the name components must be identifiers -/
def toUid (u : EntityUID) : R EntityUID := uidOf u.ty u.eid

def toRef : ERefMsg → R EntityRef
  | .slot => .ok .slot
  | .euid u => (toUid u).map .euid

def toType (ty : EntityType) : R EntityType := if validName ty then .ok ty else .error .badName

def toScope : ScopeMsg → R ScopeC
  | .any => .ok .any
  | .mem er => (toRef er).map .mem
  | .eq er => (toRef er).map .eq
  | .is ty => (toType ty).map .is
  | .isIn er ty => do let ty ← toType ty; let r ← toRef er; .ok (.isIn ty r)

def toUids : List EntityUID → R (List EntityUID)
  | [] => .ok []
  | u :: us => do let u ← toUid u; let us ← toUids us; .ok (u :: us)

/-- `TryFrom<models::ActionConstraint> for ast::ActionConstraint` (no `Action`-type check on this route) -/
def toAction : ActionMsg → R ActionC
  | .any => .ok .any
  | .mem us => (toUids us).map .mem
  | .eq u => (toUid u).map .eq

/-- annotation keys through `AnyId::from_normalized_str`, collected into a `BTreeMap` -/
def toAnnotations (anns : List (String × String)) : R (List (String × String)) :=
  if anns.all (fun kv => validAnyId kv.1) then
    match sortKVs anns with
    | some s => .ok s
    | none => .error .dupKey
  else .error .badName

/-- `TryFrom<models::TemplateBody> for ast::TemplateBody` (argument order of `TemplateBody::new`) -/
def toTemplate (m : TemplateBodyMsg) : R Template := do
  let annotations ← toAnnotations m.annotations
  let principal ← toScope m.principal
  let action ← toAction m.action
  let resource ← toScope m.resource
  let cond ← (match m.cond with
    | none => .ok none
    | some c => (toAst c).map some : R (Option Expr))
  .ok { effect := m.effect, principal, action, resource, annotations, cond }

/-! ### `models::Policy`: static policies and template links of a policy set -/

/-- an `ast::Policy` of a policy set, its template given by id -/
structure PolicyRef where
  templateId : String
  /-- `None` for a static policy -/
  link : Option String
  env : SlotEnv
deriving Repr, DecidableEq, Inhabited

/-- `models::Policy` -/
structure PolicyMsg where
  templateId : String
  linkId : Option String
  isTemplateLink : Bool
  principalEuid : Option EntityUID
  resourceEuid : Option EntityUID
deriving Repr, DecidableEq, Inhabited

/-- `HashMap::get` -/
def envGet (env : SlotEnv) (s : SlotId) : Option EntityUID :=
  match env with
  | [] => none
  | (s', u) :: rest => if s' == s then some u else envGet rest s

/-- `From<&ast::Policy> for models::Policy` -/
def ofPolicy (p : PolicyRef) : PolicyMsg :=
  { templateId := p.templateId
    linkId := p.link
    isTemplateLink := p.link.isSome
    principalEuid := envGet p.env .principal
    resourceEuid := envGet p.env .resource }

def tlookup (ts : List (String × Template)) (id : String) : Option Template :=
  match ts with
  | [] => none
  | (k, t) :: rest => if k == id then some t else tlookup rest id

/-- the slot values a link message carries, as inserted by `reify_template_link` -/
def slotValues (m : PolicyMsg) : R SlotEnv := do
  let p ← (match m.principalEuid with
    | none => .ok []
    | some u => (toUid u).map (fun u => [(SlotId.principal, u)]) : R SlotEnv)
  let r ← (match m.resourceEuid with
    | none => .ok []
    | some u => (toUid u).map (fun u => [(SlotId.resource, u)]) : R SlotEnv)
  .ok (p ++ r)

/-- `reify_template_link` / `reify_static_policy` as called by `TryFrom<models::PolicySet>`: `templates` are the
decoded templates, `seen` the policy ids inserted so far (`link_ids`).  Error classes: `.shape` missing template /
missing `link_id`, `.dupKey` id collisions, `.slot` `check_binding` failed.  (`check_binding` is the model's
`checkBinding`, which reads the slots of the scope; templates decoded from hand-made messages with slots inside
the condition are outside this model.) -/
def toPolicy (templates : List (String × Template)) (seen : List String) (m : PolicyMsg) : R PolicyRef :=
  if m.isTemplateLink then
    match tlookup templates m.templateId with
    | none => .error .shape
    | some t =>
      match m.linkId with
      | none => .error .shape
      | some id =>
        if seen.contains id then .error .dupKey
        else if (tlookup templates id).isSome then .error .dupKey
        else do
          let values ← slotValues m
          if checkBinding t values then .ok { templateId := m.templateId, link := some id, env := values }
          else .error .slot
  else
    if seen.contains m.templateId then .error .dupKey
    else match tlookup templates m.templateId with
      | none => .error .shape
      | some t =>
        if checkBinding t [] then .ok { templateId := m.templateId, link := none, env := [] }
        else .error .slot

/-- the id under which a policy is stored (`Policy::id`) -/
def PolicyRef.id (p : PolicyRef) : String := p.link.getD p.templateId

/-- slot values in the order `reify_template_link` inserts them -/
def canonEnv (env : SlotEnv) : SlotEnv :=
  (match envGet env .principal with | some u => [(SlotId.principal, u)] | none => [])
  ++ (match envGet env .resource with | some u => [(SlotId.resource, u)] | none => [])

/-! ### `models::PolicySet` -/

/-- `models::PolicySet`: `templates` (each `TemplateBody` with its `id`; static policies are zero-slot templates)
and `links` (one `models::Policy` per static or template-linked policy) -/
structure PolicySetMsg where
  templates : List (String × TemplateBodyMsg)
  links : List PolicyMsg
deriving Repr, Inhabited

/-- `ast::PolicySet`: the `templates` and `links` `LinkedHashMap`s in insertion order, policies referring to their
template by id (`template_to_links` is determined by these two and is rebuilt by the decoder) -/
structure AstSet where
  templates : List (String × Template)
  links : List PolicyRef
deriving Repr, Inhabited

def ofTemplates : List (String × Template) → Option (List (String × TemplateBodyMsg))
  | [] => some []
  | (id, t) :: rest => do let m ← ofTemplate t; let ms ← ofTemplates rest; some ((id, m) :: ms)

/-- `From<&ast::PolicySet> for models::PolicySet` (`none` = the `Unknown` panic) -/
def ofSet (s : AstSet) : Option PolicySetMsg :=
  (ofTemplates s.templates).map (fun ts => { templates := ts, links := s.links.map ofPolicy })

/-- the first loop of `TryFrom<models::PolicySet>`: decode each template, reject a repeated id;
`acc` = the `templates` map built so far -/
def toTemplates (acc : List (String × Template)) : List (String × TemplateBodyMsg) → R (List (String × Template))
  | [] => .ok acc
  | (id, tb) :: rest => do
    let t ← toTemplate tb
    if (tlookup acc id).isSome then .error .dupKey else toTemplates (acc ++ [(id, t)]) rest

/-- the second loop: `seen` = `link_ids`, `acc` = the `links` map built so far (ids are fresh, so
`LinkedHashMap::insert` appends) -/
def toLinks (ts : List (String × Template)) (seen : List String) (acc : List PolicyRef) :
    List PolicyMsg → R (List PolicyRef)
  | [] => .ok acc
  | m :: rest => do
    let p ← toPolicy ts seen m
    toLinks ts (p.id :: seen) (acc ++ [p]) rest

/-- `TryFrom<models::PolicySet> for ast::PolicySet` -/
def toSet (m : PolicySetMsg) : R AstSet := do
  let ts ← toTemplates [] m.templates
  let ls ← toLinks ts [] [] m.links
  .ok { templates := ts, links := ls }

end Cedar.Proto
