import CedarVerif.Lemmas.PartialSound3
import CedarVerif.Lemmas.JsonBasic
/- Soundness of the first pass of `pinterp` on the fragment `Frag`, by induction on the fragment derivation. -/
namespace Cedar

/-- what the first-pass outcome `x` of an expression whose concrete result is `y` must satisfy -/
def Sound (σ : Mapper) (req : Request) (es : Entities) (env : SlotEnv) (nr : Prop) (y : Result Value) (x : PRes) : Prop :=
  match x with
  | .val v => y = .ok v ∧ v.DRT
  | .err _ => ∃ c', y = .error c'
  | .res r => (nr → NotRecord r) ∧ TypedOK r y ∧ ∀ n', Sem (pinterp σ (.ofConcrete req) (.ofConcrete es) env n' r) y
  | .fuel => True
  | .panic => True

theorem sem_toExpr {v : Value} (h : v.DRT) (m : Mapper) (preq : PRequest) (pes : PEntities) (env : SlotEnv) :
    ∀ n, Sem (pinterp m preq pes env n v.toExpr) (.ok v) := by
  intro n
  rcases h.rt m preq pes env n with h | h <;> simp [h]

theorem sem_lit (p : Prim) (m : Mapper) (preq : PRequest) (pes : PEntities) (env : SlotEnv) :
    ∀ n, Sem (pinterp m preq pes env n (.lit p)) (.ok (.prim p)) := by
  intro n; cases n <;> simp [pinterp]

theorem asBool_ok {v : Value} {b : Bool} (h : v.asBool = .ok b) : v = .prim (.bool b) := by
  unfold Value.asBool at h
  split at h
  · cases h; rfl
  · cases h

theorem asEntity_ok {v : Value} {u : EntityUID} (h : v.asEntity = .ok u) : v = .prim (.entityUID u) := by
  unfold Value.asEntity at h
  split at h
  · cases h; rfl
  · cases h

theorem applyUnary_DRT {op : UnaryOp} {v w : Value} (h : applyUnary op v = .ok w) : w.DRT := by
  cases op <;> simp only [applyUnary, bind, Except.bind] at h
  · cases hb : v.asBool <;> simp [hb] at h; subst h; trivial
  · cases hb : v.asInt <;> simp [hb, intOrErr] at h
    split at h
    · cases h; trivial
    · cases h
  · cases hb : v.asSet <;> simp [hb] at h; subst h; trivial

theorem applyCmp_DRT {s : Bool} {v1 v2 w : Value} (h : applyCmp s v1 v2 = .ok w) : w.DRT := by
  cases s <;> simp only [applyCmp] at h <;> split at h <;> first | (cases h; trivial) | cases h

theorem arith_DRT {f : Int → Int → Int} {v1 v2 w : Value}
    (h : (do let a ← v1.asInt; let b ← v2.asInt; intOrErr (f a b)) = Except.ok w) : w.DRT := by
  simp only [bind, Except.bind] at h
  cases h1 : v1.asInt <;> simp [h1] at h
  cases h2 : v2.asInt <;> simp [h2, intOrErr] at h
  split at h
  · cases h; trivial
  · cases h

theorem applyBinary_DRT {es : Entities} {op : BinaryOp} (hop : op.storeFree = true) {v1 v2 w : Value}
    (h : applyBinary es op v1 v2 = .ok w) : w.DRT := by
  cases op <;> simp [BinaryOp.storeFree] at hop <;> simp only [applyBinary] at h
  · cases h; trivial
  · exact applyCmp_DRT h
  · exact applyCmp_DRT h
  · exact arith_DRT h
  · exact arith_DRT h
  · exact arith_DRT h
  · simp only [bind, Except.bind] at h
    cases h1 : v1.asSet <;> simp [h1] at h; subst h; trivial
  · simp only [bind, Except.bind] at h
    cases h1 : v1.asSet <;> simp [h1] at h
    cases h2 : v2.asSet <;> simp [h2] at h; subst h; trivial
  · simp only [bind, Except.bind] at h
    cases h1 : v1.asSet <;> simp [h1] at h
    cases h2 : v2.asSet <;> simp [h2] at h; subst h; trivial

theorem sound_ofResult {σ : Mapper} {req : Request} {es : Entities} {env : SlotEnv} {nr : Prop} {y : Result Value}
    (h : ∀ w, y = .ok w → w.DRT) : Sound σ req es env nr y (PRes.ofResult y) := by
  cases y with
  | ok v => exact ⟨rfl, h v rfl⟩
  | error c => exact ⟨c, rfl⟩

/-- the expression a best-effort position keeps for a sub-expression `b` with first-pass outcome `xb` -/
def Best (xb : PRes) (b : Expr) : Option Expr :=
  match xb with
  | .val v => some v.toExpr
  | .res r => some r
  | .err _ => some b
  | _ => none

theorem bestEffort_eq (xb : PRes) (b : Expr) (k : Expr → PRes) :
    bestEffort xb b k = match Best xb b with
      | some X => k X
      | none => xb := by
  cases xb <;> rfl

theorem best_none {xb : PRes} {b : Expr} (h : Best xb b = none) : xb = .fuel ∨ xb = .panic := by
  cases xb <;> simp [Best] at h <;> simp

section
variable {σ : Mapper} {req : Request} {es : Entities} {env : SlotEnv}

theorem sound_stuck {nr : Prop} {y : Result Value} {x : PRes} (h : x = .fuel ∨ x = .panic) : Sound σ req es env nr y x := by
  rcases h with h | h <;> subst h <;> trivial

theorem sem_best {b : Expr} (hfb : Frag b)
    (ih : ∀ (m0 : Mapper) (preq : PRequest) (n : Nat), Concretizes σ preq req →
      Sound σ req es env (NR b) (evaluate req es env b) (pinterp m0 preq (.ofConcrete es) env n b))
    {nr : Prop} {xb : PRes} (hs : Sound σ req es env nr (evaluate req es env b) xb) {X : Expr} (hB : Best xb b = some X) :
    ∀ n', Sem (pinterp σ (.ofConcrete req) (.ofConcrete es) env n' X) (evaluate req es env b) := by
  cases xb with
  | val v =>
    simp only [Best, Option.some.injEq] at hB; subst hB
    obtain ⟨h1, h2⟩ := hs
    rw [h1]; exact sem_toExpr h2 _ _ _ _
  | res r =>
    simp only [Best, Option.some.injEq] at hB; subst hB
    exact hs.2.2
  | err c =>
    simp only [Best, Option.some.injEq] at hB; subst hB
    obtain ⟨c', hc'⟩ := hs
    intro n'
    have h2 := ih σ (.ofConcrete req) n' (concretizes_ofConcrete σ req)
    have h3 := noRes hfb req es env σ n'
    cases hx : pinterp σ (.ofConcrete req) (.ofConcrete es) env n' b with
    | val v => rw [hx] at h2; rw [hc'] at h2; cases h2.1
    | err c2 => rw [hc']; simp
    | res r => exact (h3 r hx).elim
    | fuel => simp
    | panic => simp
  | fuel => simp [Best] at hB
  | panic => simp [Best] at hB

end


/-! ### store-dependent operators, sets, lists of sub-expressions -/

theorem applyBinary_DRT' {es : Entities} (hstore : StoreDRT es) {op : BinaryOp} {v1 v2 w : Value}
    (h : applyBinary es op v1 v2 = .ok w) : w.DRT := by
  cases hop : op.storeFree with
  | true => exact applyBinary_DRT hop h
  | false =>
    cases op <;> simp [BinaryOp.storeFree] at hop <;> simp only [applyBinary, bind, Except.bind] at h
    · cases h1 : v1.asEntity <;> simp only [h1] at h
      · cases h
      · split at h
        · cases h; trivial
        · split at h
          · cases h
          · cases h; trivial
        · cases h
    · cases h1 : v1.asEntity <;> simp only [h1] at h
      · cases h
      · cases h2 : v2.asString <;> simp only [h2] at h
        · cases h
        · rename_i u t
          cases hf : es.find? u <;> simp only [hf] at h
          · cases h
          · rename_i d
            cases hl : lookupKV d.tags t <;> simp only [hl] at h
            · cases h
            · cases h; exact (hstore u d hf).2 t _ hl
    · cases h1 : v1.asEntity <;> simp only [h1] at h
      · cases h
      · cases h2 : v2.asString <;> simp only [h2] at h
        · cases h
        · split at h <;> (cases h; trivial)

/-- no two elements equal modulo `Value.beq` -/
def NoDupB : List Value → Prop
  | [] => True
  | v :: vs => Value.elem v vs = false ∧ NoDupB vs

theorem mkSet_noDup (vs : List Value) : NoDupB (Value.mkSet vs) := by
  induction vs with
  | nil => trivial
  | cons v vs ih =>
    simp only [Value.mkSet]
    cases he : Value.elem v (Value.mkSet vs) with
    | true => simpa using ih
    | false => simp only [Bool.false_eq_true, if_false]; exact ⟨he, ih⟩

theorem mkSet_of_noDup {ws : List Value} (h : NoDupB ws) : Value.mkSet ws = ws := by
  induction ws with
  | nil => rfl
  | cons w ws ih =>
    simp only [Value.mkSet, ih h.2, h.1, Bool.false_eq_true, if_false]

theorem mkSet_idem (vs : List Value) : Value.mkSet (Value.mkSet vs) = Value.mkSet vs :=
  mkSet_of_noDup (mkSet_noDup vs)

theorem mem_mkSet {w : Value} {vs : List Value} (h : w ∈ Value.mkSet vs) : w ∈ vs := by
  induction vs with
  | nil => simp [Value.mkSet] at h
  | cons v vs ih =>
    simp only [Value.mkSet] at h
    split at h
    · exact List.mem_cons_of_mem _ (ih h)
    · rcases List.mem_cons.mp h with rfl | h
      · exact List.mem_cons_self ..
      · exact List.mem_cons_of_mem _ (ih h)

theorem collect_toExprList (f : Expr → PRes) (ws : List Value)
    (h : ∀ w, w ∈ ws → f w.toExpr = .fuel ∨ f w.toExpr = .val w) :
    collectPV f (Value.toExprList ws) = .error .fuel ∨
    collectPV f (Value.toExprList ws) = .ok (ws.map PartialValue.value) := by
  induction ws with
  | nil => right; rfl
  | cons w ws ih =>
    simp only [Value.toExprList, collectPV]
    rcases h w (List.mem_cons_self ..) with hw | hw
    · left; rw [hw]
    · rw [hw]
      rcases ih (fun w' hw' => h w' (List.mem_cons_of_mem _ hw')) with hc | hc
      · left; rw [hc]; rfl
      · right; rw [hc]; rfl

/-- a canonical set of round-tripping values round-trips -/
theorem RT_set {ws : List Value} (h : ∀ w, w ∈ ws → RT w) (hid : Value.mkSet ws = ws) : RT (.set ws) := by
  intro m req es env n
  cases n with
  | zero => left; simp [pinterp]
  | succ n =>
    simp only [Value.toExpr, pinterp]
    rcases collect_toExprList (pinterp m req es env n) ws (fun w hw => h w hw m req es env n) with hc | hc
    · left; rw [hc]
    · right; rw [hc]; simp [splitPV_values, hid]

theorem evaluateList_error_of_mem {req : Request} {es : Entities} {env : SlotEnv} {xs : List Expr} {x : Expr}
    (hx : x ∈ xs) {c : ErrClass} (he : evaluate req es env x = .error c) : ∃ c', evaluateList req es env xs = .error c' := by
  induction xs with
  | nil => cases hx
  | cons y ys ih =>
    simp only [evaluateList]
    rcases List.mem_cons.mp hx with rfl | hx
    · rw [he]; exact ⟨c, rfl⟩
    · cases evaluate req es env y with
      | error c1 => exact ⟨c1, rfl⟩
      | ok v =>
        obtain ⟨c', hc'⟩ := ih hx
        rw [hc']; exact ⟨c', rfl⟩

theorem splitPV_inl {pvs : List PartialValue} {vs : List Value} (h : splitPV pvs = .inl vs) :
    pvs = vs.map PartialValue.value := by
  induction pvs generalizing vs with
  | nil => simp [splitPV] at h; subst h; rfl
  | cons pv pvs ih =>
    cases pv with
    | residual e => simp [splitPV] at h
    | value v =>
      simp only [splitPV] at h
      cases hs : splitPV pvs with
      | inr es => rw [hs] at h; cases h
      | inl ws => rw [hs] at h; cases h; simp [ih hs]

theorem splitPV_inr {pvs : List PartialValue} {rs : List Expr} (h : splitPV pvs = .inr rs) :
    rs = pvs.map PartialValue.asExpr := by
  induction pvs generalizing rs with
  | nil => simp [splitPV] at h
  | cons pv pvs ih =>
    cases pv with
    | residual e => simp only [splitPV] at h; cases h; rfl
    | value v =>
      simp only [splitPV] at h
      cases hs : splitPV pvs with
      | inl ws => rw [hs] at h; cases h
      | inr es => rw [hs] at h; cases h; simp [PartialValue.asExpr, ih hs]

section
variable (σ : Mapper) (req : Request) (es : Entities) (env : SlotEnv)

/-- a collected partial value stands for its sub-expression -/
def PVRel (pv : PartialValue) (x : Expr) : Prop :=
  match pv with
  | .value v => evaluate req es env x = .ok v ∧ v.DRT
  | .residual r => ∀ n', Sem (pinterp σ (.ofConcrete req) (.ofConcrete es) env n' r) (evaluate req es env x)

/-- first pass over a list of sub-expressions, each of which is interpreted soundly -/
theorem collect_sound (go : Expr → PRes) (xs : List Expr)
    (h : ∀ x, x ∈ xs → Sound σ req es env (NR x) (evaluate req es env x) (go x)) :
    match collectPV go xs with
    | .error r => r = .fuel ∨ r = .panic ∨ (∃ c, r = .err c ∧ ∃ c', evaluateList req es env xs = .error c')
    | .ok pvs => ListRel (PVRel σ req es env) pvs xs := by
  induction xs with
  | nil => exact .nil
  | cons x xs ih =>
    have ih' := ih (fun y hy => h y (List.mem_cons_of_mem _ hy))
    have hx := h x (List.mem_cons_self ..)
    simp only [collectPV]
    cases hgx : go x with
    | fuel => exact Or.inl rfl
    | panic => exact Or.inr (Or.inl rfl)
    | err c =>
      rw [hgx] at hx
      obtain ⟨c', hc'⟩ := hx
      exact Or.inr (Or.inr ⟨c, rfl, c', by simp [evaluateList, hc']⟩)
    | val v =>
      rw [hgx] at hx
      simp only
      cases hc : collectPV go xs with
      | error r =>
        rw [hc] at ih'
        simp only [Except.map]
        rcases ih' with h1 | h1 | ⟨c, h1, c', h2⟩
        · exact Or.inl h1
        · exact Or.inr (Or.inl h1)
        · exact Or.inr (Or.inr ⟨c, h1, c', by simp [evaluateList, hx.1, h2]⟩)
      | ok pvs =>
        rw [hc] at ih'
        simp only [Except.map]
        exact .cons hx ih'
    | res r =>
      rw [hgx] at hx
      simp only
      cases hc : collectPV go xs with
      | error r0 =>
        rw [hc] at ih'
        simp only [Except.map]
        rcases ih' with h1 | h1 | ⟨c, h1, c', h2⟩
        · exact Or.inl h1
        · exact Or.inr (Or.inl h1)
        · refine Or.inr (Or.inr ⟨c, h1, ?_⟩)
          cases hev : evaluate req es env x with
          | error c3 => exact ⟨c3, by simp [evaluateList, hev]⟩
          | ok v => exact ⟨c', by simp [evaluateList, hev, h2]⟩
      | ok pvs =>
        rw [hc] at ih'
        simp only [Except.map]
        exact .cons hx.2.2 ih'

theorem pvrel_values {vs : List Value} {xs : List Expr} (h : ListRel (PVRel σ req es env) (vs.map PartialValue.value) xs) :
    evaluateList req es env xs = .ok vs ∧ ∀ v, v ∈ vs → v.DRT := by
  induction vs generalizing xs with
  | nil => cases h; exact ⟨rfl, by simp⟩
  | cons v vs ih =>
    cases h with
    | cons h1 h2 =>
      obtain ⟨he, hd⟩ := ih h2
      refine ⟨by simp [evaluateList, h1.1, he], ?_⟩
      intro w hw
      rcases List.mem_cons.mp hw with rfl | hw
      · exact h1.2
      · exact hd w hw

theorem pvrel_asExpr {pvs : List PartialValue} {xs : List Expr} (h : ListRel (PVRel σ req es env) pvs xs) :
    ListRel (fun r x => ∀ n, Sem (pinterp σ (.ofConcrete req) (.ofConcrete es) env n r) (evaluate req es env x))
      (pvs.map PartialValue.asExpr) xs := by
  induction h with
  | nil => exact .nil
  | @cons pv x pvs xs h1 _ ih =>
    refine .cons ?_ ih
    cases pv with
    | value v =>
      obtain ⟨he, hd⟩ := h1
      rw [he]; exact sem_toExpr hd _ _ _ _
    | residual r => exact h1

/-! ### records -/

/-- a collected component of a record stands for the component of the record constructor -/
def PVRelKV (pk : String × PartialValue) (xk : String × Expr) : Prop :=
  pk.1 = xk.1 ∧ PVRel σ req es env pk.2 xk.2

theorem evaluateKVs_error_head {k : String} {x : Expr} {kvs : List (String × Expr)} {c : ErrClass}
    (he : evaluate req es env x = .error c) : evaluateKVs req es env ((k, x) :: kvs) = .error c := by
  simp [evaluateKVs, he]

theorem collectKVs_sound (go : Expr → PRes) (kvs : List (String × Expr))
    (h : ∀ kv, kv ∈ kvs → Sound σ req es env (NR kv.2) (evaluate req es env kv.2) (go kv.2)) :
    match collectPVKVs go kvs with
    | .error r => r = .fuel ∨ r = .panic ∨ (∃ c, r = .err c ∧ ∃ c', evaluateKVs req es env kvs = .error c')
    | .ok pkvs => ListRel (PVRelKV σ req es env) pkvs kvs := by
  induction kvs with
  | nil => exact .nil
  | cons kv kvs ih =>
    obtain ⟨k, x⟩ := kv
    have ih' := ih (fun y hy => h y (List.mem_cons_of_mem _ hy))
    have hx := h (k, x) (List.mem_cons_self ..)
    simp only at hx
    simp only [collectPVKVs]
    cases hgx : go x with
    | fuel => exact Or.inl rfl
    | panic => exact Or.inr (Or.inl rfl)
    | err c =>
      rw [hgx] at hx
      obtain ⟨c', hc'⟩ := hx
      exact Or.inr (Or.inr ⟨c, rfl, c', by simp [evaluateKVs, hc']⟩)
    | val v =>
      rw [hgx] at hx
      simp only
      cases hc : collectPVKVs go kvs with
      | error r =>
        rw [hc] at ih'
        simp only [Except.map]
        rcases ih' with h1 | h1 | ⟨c, h1, c', h2⟩
        · exact Or.inl h1
        · exact Or.inr (Or.inl h1)
        · exact Or.inr (Or.inr ⟨c, h1, c', by simp [evaluateKVs, hx.1, h2]⟩)
      | ok pvs =>
        rw [hc] at ih'
        simp only [Except.map]
        exact .cons ⟨rfl, hx⟩ ih'
    | res r =>
      rw [hgx] at hx
      simp only
      cases hc : collectPVKVs go kvs with
      | error r0 =>
        rw [hc] at ih'
        simp only [Except.map]
        rcases ih' with h1 | h1 | ⟨c, h1, c', h2⟩
        · exact Or.inl h1
        · exact Or.inr (Or.inl h1)
        · refine Or.inr (Or.inr ⟨c, h1, ?_⟩)
          cases hev : evaluate req es env x with
          | error c3 => exact ⟨c3, by simp [evaluateKVs, hev]⟩
          | ok v => exact ⟨c', by simp [evaluateKVs, hev, h2]⟩
      | ok pvs =>
        rw [hc] at ih'
        simp only [Except.map]
        exact .cons ⟨rfl, hx.2.2⟩ ih'

theorem pvrelKV_values {pkvs : List (String × PartialValue)} {kvs : List (String × Expr)}
    (h : ListRel (PVRelKV σ req es env) pkvs kvs) :
    ∀ {vs : List Value}, pkvs.map (·.2) = vs.map PartialValue.value →
      evaluateKVs req es env kvs = .ok ((pkvs.map (·.1)).zip vs) ∧ ∀ v, v ∈ vs → v.DRT := by
  induction h with
  | nil =>
    intro vs hv
    cases vs with
    | nil => exact ⟨rfl, by simp⟩
    | cons v vs => simp at hv
  | @cons pk xk pkvs kvs h1 _ ih =>
    intro vs hv
    obtain ⟨k, pv⟩ := pk
    obtain ⟨k', x⟩ := xk
    obtain ⟨hk, hr⟩ := h1
    simp only at hk hr
    subst hk
    cases vs with
    | nil => simp at hv
    | cons v vs =>
      simp only [List.map_cons, List.cons.injEq] at hv
      obtain ⟨hpv, hrest⟩ := hv
      subst hpv
      obtain ⟨he, hd⟩ := ih hrest
      refine ⟨by simp [evaluateKVs, hr.1, he], ?_⟩
      intro w hw
      rcases List.mem_cons.mp hw with rfl | hw
      · exact hr.2
      · exact hd w hw

theorem pvrelKV_asExpr {pkvs : List (String × PartialValue)} {kvs : List (String × Expr)}
    (h : ListRel (PVRelKV σ req es env) pkvs kvs) :
    ListRel (fun rk xk => rk.1 = xk.1 ∧
        ∀ n, Sem (pinterp σ (.ofConcrete req) (.ofConcrete es) env n rk.2) (evaluate req es env xk.2))
      ((pkvs.map (·.1)).zip ((pkvs.map (·.2)).map PartialValue.asExpr)) kvs := by
  induction h with
  | nil => exact .nil
  | @cons pk xk pkvs kvs h1 _ ih =>
    obtain ⟨k, pv⟩ := pk
    obtain ⟨hk, hr⟩ := h1
    simp only [List.map_cons, List.zip_cons_cons]
    refine .cons ⟨hk, ?_⟩ ih
    cases pv with
    | value v =>
      obtain ⟨he, hd⟩ := hr
      simp only [PartialValue.asExpr]
      rw [he]; exact sem_toExpr hd _ _ _ _
    | residual r => exact hr

end

/-! ### canonical records round-trip -/

open CJson in
theorem str_lt_of_not (a b : String) (h1 : ¬ a < b) (h2 : a ≠ b) : b < a := by
  have h3 : b ≤ a := String.not_lt.mp h1
  exact Classical.byContradiction fun hn => h2 (String.le_antisymm (String.not_lt.mp hn) h3)

theorem mem_insertKV {α} {k : String} {v : α} {acc : List (String × α)} {p : String × α}
    (h : p ∈ insertKV k v acc) : p = (k, v) ∨ p ∈ acc := by
  induction acc with
  | nil => simp [insertKV] at h; exact Or.inl h
  | cons q acc ih =>
    obtain ⟨k', v'⟩ := q
    simp only [insertKV] at h
    split at h
    · rcases List.mem_cons.mp h with h | h
      · exact Or.inl h
      · exact Or.inr h
    · split at h
      · rcases List.mem_cons.mp h with h | h
        · exact Or.inl h
        · exact Or.inr (List.mem_cons_of_mem _ h)
      · rcases List.mem_cons.mp h with h | h
        · exact Or.inr (h ▸ List.mem_cons_self ..)
        · rcases ih h with h | h
          · exact Or.inl h
          · exact Or.inr (List.mem_cons_of_mem _ h)

theorem insertKV_sorted {α} (k : String) (v : α) (acc : List (String × α)) (hs : CJson.Sorted (acc.map Prod.fst)) :
    CJson.Sorted ((insertKV k v acc).map Prod.fst) := by
  induction acc with
  | nil => simp [insertKV, CJson.Sorted]
  | cons q acc ih =>
    obtain ⟨k', v'⟩ := q
    simp only [List.map_cons, CJson.Sorted] at hs
    simp only [insertKV]
    split
    · rename_i hlt
      simp only [List.map_cons, CJson.Sorted]
      refine ⟨?_, hs⟩
      intro x hx
      rcases List.mem_cons.mp hx with rfl | hx
      · exact hlt
      · exact String.lt_trans hlt (hs.1 x hx)
    · rename_i hnlt
      split
      · rename_i heq
        have : k = k' := by simpa using heq
        subst this
        simp only [List.map_cons, CJson.Sorted]
        exact hs
      · rename_i hne
        have hne' : k ≠ k' := by simpa using hne
        have hlt : k' < k := str_lt_of_not k k' hnlt hne'
        simp only [List.map_cons, CJson.Sorted]
        refine ⟨?_, ih hs.2⟩
        intro x hx
        obtain ⟨p, hp, rfl⟩ := List.mem_map.mp hx
        rcases mem_insertKV hp with rfl | hp
        · exact hlt
        · exact hs.1 _ (List.mem_map_of_mem hp)

theorem foldl_insertKV_props (kvs : List (String × Value)) : ∀ (acc : List (String × Value)),
    CJson.Sorted (acc.map Prod.fst) →
    CJson.Sorted ((kvs.foldl (fun acc kv => insertKV kv.1 kv.2 acc) acc).map Prod.fst) ∧
    ∀ p, p ∈ kvs.foldl (fun acc kv => insertKV kv.1 kv.2 acc) acc → p ∈ acc ∨ p ∈ kvs := by
  induction kvs with
  | nil => intro acc hs; exact ⟨hs, fun p hp => Or.inl hp⟩
  | cons kv kvs ih =>
    intro acc hs
    simp only [List.foldl_cons]
    obtain ⟨h1, h2⟩ := ih (insertKV kv.1 kv.2 acc) (insertKV_sorted _ _ _ hs)
    refine ⟨h1, ?_⟩
    intro p hp
    rcases h2 p hp with h | h
    · rcases mem_insertKV h with h | h
      · exact Or.inr (h ▸ List.mem_cons_self ..)
      · exact Or.inl h
    · exact Or.inr (List.mem_cons_of_mem _ h)

theorem DRTKVs_of_forall {R : List (String × Value)} (h : ∀ p, p ∈ R → p.2.DRT) : Value.DRTKVs R := by
  induction R with
  | nil => trivial
  | cons p R ih =>
    obtain ⟨k, v⟩ := p
    simp only [Value.DRTKVs]
    exact ⟨h (k, v) (List.mem_cons_self ..), ih (fun q hq => h q (List.mem_cons_of_mem _ hq))⟩

theorem collect_toExprKVs (f : Expr → PRes) (R : List (String × Value))
    (h : ∀ p, p ∈ R → f p.2.toExpr = .fuel ∨ f p.2.toExpr = .val p.2) :
    collectPVKVs f (Value.toExprKVs R) = .error .fuel ∨
    collectPVKVs f (Value.toExprKVs R) = .ok (R.map (fun kv => (kv.1, PartialValue.value kv.2))) := by
  induction R with
  | nil => right; rfl
  | cons p R ih =>
    obtain ⟨k, w⟩ := p
    simp only [Value.toExprKVs, collectPVKVs]
    rcases h (k, w) (List.mem_cons_self ..) with hw | hw
    · left; simp only at hw; rw [hw]
    · simp only at hw
      rw [hw]
      rcases ih (fun q hq => h q (List.mem_cons_of_mem _ hq)) with hc | hc
      · left; rw [hc]; rfl
      · right; rw [hc]; rfl

/-- a record with strictly increasing keys and round-tripping components round-trips -/
theorem RT_record {R : List (String × Value)} (hs : CJson.Sorted (R.map Prod.fst)) (h : ∀ p, p ∈ R → RT p.2) :
    RT (.record R) := by
  intro m req es env n
  cases n with
  | zero => left; simp [pinterp]
  | succ n =>
    simp only [Value.toExpr, pinterp]
    rcases collect_toExprKVs (pinterp m req es env n) R (fun p hp => h p hp m req es env n) with hc | hc
    · left; rw [hc]
    · right
      rw [hc]
      have h1 : (R.map (fun kv => (kv.1, PartialValue.value kv.2))).map (·.2) = (R.map Prod.snd).map PartialValue.value := by
        simp [List.map_map, Function.comp_def]
      have h2 : (R.map (fun kv => (kv.1, PartialValue.value kv.2))).map (·.1) = R.map Prod.fst := by
        simp [List.map_map, Function.comp_def]
      simp only [h1, h2, splitPV_values, zip_fst_snd]
      have := CJson.foldl_insertKV_sorted R [] (by simpa using hs)
      simp only [List.nil_append] at this
      rw [this]

/-- the value of a record constructor whose components round-trip deeply round-trips deeply -/
theorem record_DRT (kvs : List (String × Value)) (h : ∀ p, p ∈ kvs → p.2.DRT) :
    (Value.record (kvs.foldl (fun acc kv => insertKV kv.1 kv.2 acc) [])).DRT := by
  obtain ⟨hs, hm⟩ := foldl_insertKV_props kvs [] (by simp [CJson.Sorted])
  have hall : ∀ p, p ∈ kvs.foldl (fun acc kv => insertKV kv.1 kv.2 acc) [] → p.2.DRT := by
    intro p hp
    rcases hm p hp with h' | h'
    · cases h'
    · exact h p h'
  simp only [Value.DRT]
  exact ⟨RT_record hs (fun p hp => (hall p hp).rt), DRTKVs_of_forall hall⟩

end Cedar
