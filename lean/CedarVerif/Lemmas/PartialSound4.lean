import CedarVerif.Lemmas.PartialSound3
/- Soundness of the first pass of `pinterp` on the fragment `Frag`, by induction on the fragment derivation. -/
namespace Cedar

/-- what the first-pass outcome `x` of an expression whose concrete result is `y` must satisfy -/
def Sound (σ : Mapper) (req : Request) (es : Entities) (env : SlotEnv) (y : Result Value) (x : PRes) : Prop :=
  match x with
  | .val v => y = .ok v ∧ v.DRT
  | .err _ => ∃ c', y = .error c'
  | .res r => NotRecord r ∧ TypedOK r y ∧ ∀ n', Sem (pinterp σ (.ofConcrete req) (.ofConcrete es) env n' r) y
  | .fuel => True
  | .panic => True

theorem sem_toExpr {v : Value} (h : v.DRT) (m : Mapper) (preq : PRequest) (pes : PEntities) (env : SlotEnv) :
    ∀ n, Sem (pinterp m preq pes env n v.toExpr) (.ok v) := by
  intro n
  rcases h.rt m preq pes env n with h | h <;> simp [h]

theorem sem_lit (p : Prim) (m : Mapper) (preq : PRequest) (pes : PEntities) (env : SlotEnv) :
    ∀ n, Sem (pinterp m preq pes env n (.lit p)) (.ok (.prim p)) := by
  intro n; cases n <;> simp [pinterp]

theorem asBool_ok {v : Value} {b : Bool} (h : v.asBool = .ok b) : v = .prim (.bool b) := by
  unfold Value.asBool at h
  split at h
  · cases h; rfl
  · cases h

theorem asEntity_ok {v : Value} {u : EntityUID} (h : v.asEntity = .ok u) : v = .prim (.entityUID u) := by
  unfold Value.asEntity at h
  split at h
  · cases h; rfl
  · cases h

theorem applyUnary_DRT {op : UnaryOp} {v w : Value} (h : applyUnary op v = .ok w) : w.DRT := by
  cases op <;> simp only [applyUnary, bind, Except.bind] at h
  · cases hb : v.asBool <;> simp [hb] at h; subst h; trivial
  · cases hb : v.asInt <;> simp [hb, intOrErr] at h
    split at h
    · cases h; trivial
    · cases h
  · cases hb : v.asSet <;> simp [hb] at h; subst h; trivial

theorem applyCmp_DRT {s : Bool} {v1 v2 w : Value} (h : applyCmp s v1 v2 = .ok w) : w.DRT := by
  cases s <;> simp only [applyCmp] at h <;> split at h <;> first | (cases h; trivial) | cases h

theorem arith_DRT {f : Int → Int → Int} {v1 v2 w : Value}
    (h : (do let a ← v1.asInt; let b ← v2.asInt; intOrErr (f a b)) = Except.ok w) : w.DRT := by
  simp only [bind, Except.bind] at h
  cases h1 : v1.asInt <;> simp [h1] at h
  cases h2 : v2.asInt <;> simp [h2, intOrErr] at h
  split at h
  · cases h; trivial
  · cases h

theorem applyBinary_DRT {es : Entities} {op : BinaryOp} (hop : op.storeFree = true) {v1 v2 w : Value}
    (h : applyBinary es op v1 v2 = .ok w) : w.DRT := by
  cases op <;> simp [BinaryOp.storeFree] at hop <;> simp only [applyBinary] at h
  · cases h; trivial
  · exact applyCmp_DRT h
  · exact applyCmp_DRT h
  · exact arith_DRT h
  · exact arith_DRT h
  · exact arith_DRT h
  · simp only [bind, Except.bind] at h
    cases h1 : v1.asSet <;> simp [h1] at h; subst h; trivial
  · simp only [bind, Except.bind] at h
    cases h1 : v1.asSet <;> simp [h1] at h
    cases h2 : v2.asSet <;> simp [h2] at h; subst h; trivial
  · simp only [bind, Except.bind] at h
    cases h1 : v1.asSet <;> simp [h1] at h
    cases h2 : v2.asSet <;> simp [h2] at h; subst h; trivial

theorem sound_ofResult {σ : Mapper} {req : Request} {es : Entities} {env : SlotEnv} {y : Result Value}
    (h : ∀ w, y = .ok w → w.DRT) : Sound σ req es env y (PRes.ofResult y) := by
  cases y with
  | ok v => exact ⟨rfl, h v rfl⟩
  | error c => exact ⟨c, rfl⟩

/-- the expression a best-effort position keeps for a sub-expression `b` with first-pass outcome `xb` -/
def Best (xb : PRes) (b : Expr) : Option Expr :=
  match xb with
  | .val v => some v.toExpr
  | .res r => some r
  | .err _ => some b
  | _ => none

theorem bestEffort_eq (xb : PRes) (b : Expr) (k : Expr → PRes) :
    bestEffort xb b k = match Best xb b with
      | some X => k X
      | none => xb := by
  cases xb <;> rfl

theorem best_none {xb : PRes} {b : Expr} (h : Best xb b = none) : xb = .fuel ∨ xb = .panic := by
  cases xb <;> simp [Best] at h <;> simp

section
variable {σ : Mapper} {req : Request} {es : Entities} {env : SlotEnv}

theorem sound_stuck {y : Result Value} {x : PRes} (h : x = .fuel ∨ x = .panic) : Sound σ req es env y x := by
  rcases h with h | h <;> subst h <;> trivial

theorem sem_best {b : Expr} (hfb : Frag b)
    (ih : ∀ (m0 : Mapper) (preq : PRequest) (n : Nat), Concretizes σ preq req →
      Sound σ req es env (evaluate req es env b) (pinterp m0 preq (.ofConcrete es) env n b))
    {xb : PRes} (hs : Sound σ req es env (evaluate req es env b) xb) {X : Expr} (hB : Best xb b = some X) :
    ∀ n', Sem (pinterp σ (.ofConcrete req) (.ofConcrete es) env n' X) (evaluate req es env b) := by
  cases xb with
  | val v =>
    simp only [Best, Option.some.injEq] at hB; subst hB
    obtain ⟨h1, h2⟩ := hs
    rw [h1]; exact sem_toExpr h2 _ _ _ _
  | res r =>
    simp only [Best, Option.some.injEq] at hB; subst hB
    exact hs.2.2
  | err c =>
    simp only [Best, Option.some.injEq] at hB; subst hB
    obtain ⟨c', hc'⟩ := hs
    intro n'
    have h2 := ih σ (.ofConcrete req) n' (concretizes_ofConcrete σ req)
    have h3 := noRes hfb req es env σ n'
    cases hx : pinterp σ (.ofConcrete req) (.ofConcrete es) env n' b with
    | val v => rw [hx] at h2; rw [hc'] at h2; cases h2.1
    | err c2 => rw [hc']; simp
    | res r => exact (h3 r hx).elim
    | fuel => simp
    | panic => simp
  | fuel => simp [Best] at hB
  | panic => simp [Best] at hB

end

end Cedar
