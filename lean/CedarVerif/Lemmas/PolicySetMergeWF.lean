import CedarVerif.Lemmas.PolicySetMergeInv
/-
C08 helper lemmas, part 12b: the merged set satisfies the invariant of API-built sets (`Strict`), for any renaming
satisfying `RenOK`.
-/
namespace Cedar
open LHM

namespace PolicySet

theorem pren_link_none {A B : PolicySet} {ren : LHM String} (ok : RenOK A B ren) (wfB : B.WF) {k : String} {p0 : TPolicy}
    (hb : B.links.get? k = some p0) : (pren ren k p0).link = none ↔ p0.link = none := by
  rw [pren_spec ok wfB hb]
  cases p0.link <;> simp

theorem pren_template {A B : PolicySet} {ren : LHM String} (ok : RenOK A B ren) (wfB : B.WF) {k : String} {p0 : TPolicy}
    (hb : B.links.get? k = some p0) : (pren ren k p0).template = tren ren p0.template.id p0.template := by
  rw [pren_spec ok wfB hb]

theorem pren_values {A B : PolicySet} {ren : LHM String} (ok : RenOK A B ren) (wfB : B.WF) {k : String} {p0 : TPolicy}
    (hb : B.links.get? k = some p0) : (pren ren k p0).values = p0.values := by
  rw [pren_spec ok wfB hb]

theorem pren_template_id {A B : PolicySet} {ren : LHM String} (ok : RenOK A B ren) (wfB : B.WF) {k : String} {p0 : TPolicy}
    (hb : B.links.get? k = some p0) : (pren ren k p0).template.id = renamed ren p0.template.id := by
  rw [pren_template ok wfB hb]; exact tren_id ren _ _ rfl

theorem pren_id {A B : PolicySet} {ren : LHM String} (ok : RenOK A B ren) (wfB : B.WF) {k : String} {p0 : TPolicy}
    (hb : B.links.get? k = some p0) : (pren ren k p0).id = renamed ren k := by
  have hid := wfB.lKey k p0 hb
  have hti := pren_template_id ok wfB hb
  rw [pren_spec ok wfB hb] at hti ⊢
  unfold TPolicy.id at hid ⊢
  cases hl : p0.link with
  | none =>
    rw [hl] at hid
    simp only [Option.map_none]
    simp only at hti hid
    rw [hti, hid]
  | some l => simp

/-- `merge_policyset` (its successful path, for a renaming satisfying `RenOK`) preserves the invariant of API-built
sets -/
theorem mergeCore_strict {A B : PolicySet} {ren : LHM String} (sA : A.Strict) (sB : B.Strict) (ok : RenOK A B ren) :
    (mergeCore A B ren).Strict := by
  have wfA := sA.wf
  have wfB := sB.wf
  have UT := U_templates ok wfB
  have UL := U_links ok wfA wfB
  have UTs := U_templates_some ok wfB
  have UM := U_t2l ok wfB
  have AsubT : ∀ x t, A.templates.get? x = some t → (mergeCore A B ren).templates.get? x = some t :=
    fun x t h => (UT x t).mpr (Or.inl h)
  have AsubL : ∀ x p, A.links.get? x = some p → (mergeCore A B ren).links.get? x = some p :=
    fun x p h => (UL x p).mpr (Or.inl h)
  have BinT : ∀ k t0, B.templates.get? k = some t0 →
      (mergeCore A B ren).templates.get? (renamed ren k) = some (tren ren k t0) :=
    fun k t0 h => (UT _ _).mpr (Or.inr ⟨k, t0, h, rfl, rfl⟩)
  have BinL : ∀ k p0, B.links.get? k = some p0 →
      (mergeCore A B ren).links.get? (renamed ren k) = some (pren ren k p0) :=
    fun k p0 h => (UL _ _).mpr (Or.inr ⟨k, p0, h, rfl, rfl⟩)
  -- the clauses
  have c_lTemplate : ∀ k p, (mergeCore A B ren).links.get? k = some p →
      (mergeCore A B ren).templates.get? p.template.id = some p.template := by
    intro x p hp
    rcases (UL x p).mp hp with h | ⟨k, p0, hb, rfl, rfl⟩
    · exact AsubT _ _ (wfA.lTemplate x p h)
    · rw [pren_template_id ok wfB hb, pren_template ok wfB hb]
      exact BinT _ _ (wfB.lTemplate k p0 hb)
  have c_shared : ∀ k p, (mergeCore A B ren).links.get? k = some p →
      ((mergeCore A B ren).templates.get? k).isSome = true → p.link = none := by
    intro x p hp ht
    rcases (UL x p).mp hp with h | ⟨k, p0, hb, rfl, rfl⟩
    · rcases (UTs x).mp ht with h2 | ⟨k, hk, rfl⟩
      · exact wfA.shared x p h h2
      · have hr := ok.none_of_boundA (k := k) (Or.inr (by simp [h]))
        rw [renamed_none hr] at h
        obtain ⟨t0, ht0⟩ := (isSome_iff_exists _).mp hk
        by_cases hs : t0.slots = []
        · cases hq : B.links.get? k with
          | none => exact absurd hs (sB.nb k t0 ht0 hq)
          | some q =>
            have := ok.r2 hq h hr
            subst this
            exact wfB.shared k p hq hk
        · exact absurd hr (ok.r3 ht0 hs (by simp [h]))
    · rw [pren_link_none ok wfB hb]
      cases hl : p0.link with
      | none => rfl
      | some l =>
        exfalso
        rcases (UTs _).mp ht with h2 | ⟨k', hk', he⟩
        · have hr := ok.none_of_boundA (k := k) (Or.inl h2)
          rw [renamed_none hr] at h2
          exact ok.r4 hb (by simp [hl]) h2 hr
        · have := ok.rho_inj (Or.inl hk') (Or.inr (by simp [hb])) he
          subst this
          have := wfB.shared k' p0 hb hk'
          rw [hl] at this; cases this
  refine ⟨⟨?_, ?_, ?_, ?_, ?_, ?_, c_lTemplate, ?_, c_shared, ?_, ?_⟩, ?_, ?_⟩
  · -- tNodup
    exact (LHM.foldl_insStep (renamed ren) (fun k t (_ : Option Template) => tren ren k t)
      B.templates A.templates wfB.tNodup (fun k k' hk hk' => ok.rho_inj (Or.inl hk) (Or.inl hk'))).2.2 wfA.tNodup
  · exact (LHM.foldl_insStep (renamed ren) (fun k p (_ : Option TPolicy) => pren ren k p)
      B.links A.links wfB.lNodup (fun k k' hk hk' => ok.rho_inj (Or.inr hk) (Or.inr hk'))).2.2 wfA.lNodup
  · exact (LHM.foldl_insStep (renamed ren) (fun (_ : String) s cur => mren ren s cur)
      B.t2l A.t2l wfB.mNodup (fun k k' hk hk' => ok.rho_inj (boundB_of_t2l wfB hk) (boundB_of_t2l wfB hk'))).2.2 wfA.mNodup
  · -- tKey
    intro x t ht
    rcases (UT x t).mp ht with h | ⟨k, t0, hb, rfl, rfl⟩
    · exact wfA.tKey x t h
    · exact tren_id ren k t0 (wfB.tKey k t0 hb)
  · -- lKey
    intro x p hp
    rcases (UL x p).mp hp with h | ⟨k, p0, hb, rfl, rfl⟩
    · exact wfA.lKey x p h
    · exact pren_id ok wfB hb
  · -- mKeys
    intro x
    rw [Bool.eq_iff_iff, (UM x).1, UTs x, wfA.mKeys x]
    constructor
    · rintro (h | ⟨k, hk, he⟩)
      · exact Or.inl h
      · exact Or.inr ⟨k, by rw [← wfB.mKeys]; exact hk, he⟩
    · rintro (h | ⟨k, hk, he⟩)
      · exact Or.inl h
      · exact Or.inr ⟨k, by rw [wfB.mKeys]; exact hk, he⟩
  · -- mExact
    intro x s hs id
    rw [(UM x).2 s hs id]
    constructor
    · rintro (⟨s0, h0, hid⟩ | ⟨k, s0, hk, rfl, y, hy, rfl⟩)
      · obtain ⟨p, hp, hpt⟩ := (wfA.mExact x s0 h0 id).mp hid
        exact ⟨p, AsubL _ _ hp, hpt⟩
      · obtain ⟨p0, hp0, hpt⟩ := (wfB.mExact k s0 hk y).mp hy
        refine ⟨_, BinL y p0 hp0, ?_⟩
        rw [pren_template_id ok wfB hp0, hpt]
    · rintro ⟨p, hp, hpt⟩
      rcases (UL id p).mp hp with h | ⟨k, p0, hb, rfl, rfl⟩
      · have hT := wfA.lTemplate id p h
        rw [hpt] at hT
        have hm := wfA.mKeys x
        rw [hT] at hm
        obtain ⟨s0, h0⟩ := (isSome_iff_exists _).mp hm
        exact Or.inl ⟨s0, h0, (wfA.mExact x s0 h0 id).mpr ⟨p, h, hpt⟩⟩
      · rw [pren_template_id ok wfB hb] at hpt
        have hT := wfB.lTemplate k p0 hb
        have hm := wfB.mKeys p0.template.id
        rw [hT] at hm
        obtain ⟨s0, h0⟩ := (isSome_iff_exists _).mp hm
        exact Or.inr ⟨p0.template.id, s0, h0, hpt, k, (wfB.mExact _ s0 h0 k).mpr ⟨p0, hb, rfl⟩, rfl⟩
  · -- staticOne
    intro x p hp hn
    cases hq : (mergeCore A B ren).links.get? p.template.id with
    | none => rfl
    | some q =>
      exfalso
      rcases (UL x p).mp hp with h | ⟨k, p0, hb, rfl, rfl⟩
      · have hAL := wfA.staticOne x p h hn
        have hAT := wfA.lTemplate x p h
        have hsl := sA.nb _ _ hAT hAL
        rcases (UL _ q).mp hq with h2 | ⟨k, q0, hb, he, rfl⟩
        · rw [hAL] at h2; cases h2
        · have hr := ok.none_of_boundA (k := k) (Or.inl (by rw [he]; simp [hAT]))
          rw [renamed_none hr] at he
          subst he
          by_cases hql : q0.link = none
          · have hid := wfB.lKey _ q0 hb
            unfold TPolicy.id at hid
            rw [hql] at hid
            simp only at hid
            have hBT := wfB.lTemplate _ q0 hb
            rw [hid] at hBT
            have := ok.r1 hBT hAT hr
            rw [this] at hsl
            exact hsl (sB.ss _ q0 hb hql)
          · exact ok.r4 hb hql (by simp [hAT]) hr
      · have hl : p0.link ≠ none := fun e => hn ((pren_link_none ok wfB hb).mpr e)
        have hBL := wfB.staticOne k p0 hb hl
        have hBT := wfB.lTemplate k p0 hb
        have hsl := sB.nb _ _ hBT hBL
        rw [pren_template_id ok wfB hb] at hq
        rcases (UL _ q).mp hq with h2 | ⟨k', q0, hb', he, rfl⟩
        · have hr := ok.none_of_boundA (k := p0.template.id) (Or.inr (by simp [h2]))
          rw [renamed_none hr] at h2
          exact ok.r3 hBT hsl (by simp [h2]) hr
        · have := ok.rho_inj (Or.inr (by simp [hb'])) (Or.inl (by simp [hBT])) he
          subst this
          rw [hBL] at hb'; cases hb'
  · -- bound
    intro x p hp
    rcases (UL x p).mp hp with h | ⟨k, p0, hb, rfl, rfl⟩
    · exact wfA.bound x p h
    · rw [pren_values ok wfB hb, pren_template ok wfB hb, checkBinding_congr (tren_slots ren _ _)]
      exact wfB.bound k p0 hb
  · -- NoBareStatic
    intro x t ht hl
    rcases (UT x t).mp ht with h | ⟨k, t0, hb, rfl, rfl⟩
    · apply sA.nb x t h
      cases hq : A.links.get? x with
      | none => rfl
      | some q => rw [AsubL x q hq] at hl; cases hl
    · rw [tren_slots]
      apply sB.nb k t0 hb
      cases hq : B.links.get? k with
      | none => rfl
      | some q => rw [BinL k q hq] at hl; cases hl
  · -- static policies have no slots
    intro x p hp hl
    rcases (UL x p).mp hp with h | ⟨k, p0, hb, rfl, rfl⟩
    · exact sA.ss x p h hl
    · rw [pren_template ok wfB hb, tren_slots]
      exact sB.ss k p0 hb ((pren_link_none ok wfB hb).mp hl)

end PolicySet
end Cedar
