import CedarVerif.Driver.Ops.Core
import CedarVerif.Driver.Ops.Conf
import CedarVerif.Driver.Ops.TC
import CedarVerif.Driver.Ops.Syntax
import CedarVerif.Driver.Ops.SyntaxPolicy
import CedarVerif.Driver.Ops.PolicySet
import CedarVerif.Driver.Ops.Est
import CedarVerif.Driver.Ops.Fmt
import CedarVerif.Driver.Ops.Json
import CedarVerif.Driver.Ops.Partial
import CedarVerif.Driver.Ops.NoPanic
import CedarVerif.Driver.Ops.Ffi
import CedarVerif.Driver.Ops.FfiPolicies
import CedarVerif.Driver.Ops.Tyck
import CedarVerif.Driver.Ops.SchemaSyntax
import CedarVerif.Driver.Ops.SymCC
import CedarVerif.Driver.Ops.SymCompile
import CedarVerif.Driver.Ops.Level
import CedarVerif.Driver.Ops.Tpe
import CedarVerif.Driver.Ops.Manifest
import CedarVerif.Driver.Ops.TypedAst
/-
Line-protocol driver: one request per line on stdin, one reply per line on stdout.
Unknown or malformed requests answer `(bad-op)`; the driver never defaults.
To add ops for a property: create `CedarVerif/Driver/Ops/<X>.lean` exporting `handleX : Sexp → Option String`
(returning `none` for requests that are not its own), import it here and add it to `handlers`.
-/
open CedarVerif

def handlers : List (Sexp → Option String) := [
  Ops.handleCore,
  Ops.handleConf,
  Ops.handleTC,
  Ops.handleSyntax,
  Ops.SynPol.handleSyntaxPolicy,
  Ops.handlePSet,
  Ops.handleEst,
  Ops.handleFmt,
  Ops.handleJson,
  Ops.handlePartial,
  Ops.handleNoPanic,
  Ops.handleFfi,
  Ops.FfiPols.handleFfiPols,
  Ops.handleTyck,
  Ops.handleSchemaSyntax,
  Ops.SymCCOp.handleSymCC,
  Ops.SymCompileOp.handleSymC,
  Ops.Level.handleLevel,
  Ops.Tpe.handleTpe,
  Ops.ManifestOps.handleManifest,
  Ops.TypedAst.handleTypedAst
]

def handle (x : Sexp) : String :=
  match handlers.findSome? (fun h => h x) with
  | some r => r
  | none => "(bad-op)"

partial def loop (h : IO.FS.Stream) (out : IO.FS.Stream) : IO Unit := do
  let line ← h.getLine
  if line.isEmpty then return ()
  let reply := match Sexp.parse line with
    | some x => handle x
    | none => "(bad-op)"
  out.putStrLn reply
  loop h out

def main : IO Unit := do
  let out ← IO.getStdout
  loop (← IO.getStdin) out
  out.flush
