import CedarVerif.Driver.Codec
/-
Line-protocol driver: one request per line on stdin, one reply per line on stdout.
Unknown or malformed requests answer `(bad-op)`; the driver never defaults.
-/
open CedarVerif Cedar

def encIdx : IdxOutcome → String
  | .result b => toString b
  | .panic s => "panic:" ++ s
  | .fuel => "fuel"

def handle (x : Sexp) : String :=
  match x with
  | .list [.atom "eval", req, ents, env, e] =>
    match decRequest req, decEntities ents, decSlotEnv env, decExpr e with
    | some req, some ents, some env, some e => encResult (evaluate req ents env e)
    | _, _, _, _ => "(bad-op)"
  | .list [.atom "auth", req, ents, ps] =>
    match decRequest req, decEntities ents, decPolicies ps with
    | some req, some ents, some ps => encResponse (isAuthorized req ents ps)
    | _, _, _ => "(bad-op)"
  | .list [.atom "like", p, .str t] =>
    match decPattern p with
    | some p => s!"(like {M p t.toList} {wm p t.toList} {encIdx (wmIdx p t.toList)})"
    | none => "(bad-op)"
  | .list (.atom "ext" :: .str fn :: args) =>
    match decValues args with
    | some vs => encResult (callExt fn vs)
    | none => "(bad-op)"
  | _ => "(bad-op)"

partial def loop (h : IO.FS.Stream) (out : IO.FS.Stream) : IO Unit := do
  let line ← h.getLine
  if line.isEmpty then return ()
  let reply := match Sexp.parse line with
    | some x => handle x
    | none => "(bad-op)"
  out.putStrLn reply
  loop h out

def main : IO Unit := do
  let out ← IO.getStdout
  loop (← IO.getStdin) out
  out.flush
